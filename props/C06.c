/* C06: the client survives arbitrary replies (memory safety, termination; unmatched replies ignored).
 * E-A with an evil relay, ASan+UBSan build: the real client runs its real handshake and tunnel
 * loop against the real server; at EVERY answer on its way to the client the explorer forks one
 * child per item of a hostile menu built from that honest answer (one substitution = one
 * deviation; the rest of the run stays honest so that every later handshake step is reached).
 * Oracle: no sanitizer report, no crash, no CPU-time overrun; an answer whose DNS id matches
 * none of the client's three latest queries causes no tun write and leaves the client's
 * reassembly state untouched.                                        DESIGN.md 2, C06 */
#include <ctype.h>
#include <setjmp.h>
#include <signal.h>
#include <sys/mman.h>
#include <sys/wait.h>
#include "harness_common.h"
#include "netsim.h"
#include "refmd5.h"
#include "tmsg.h"

static int thorough;
enum { K_ANSWERS, K_SUBST, K_UNMATCHED_CHECKS, K_HS_OK, K_HS_FAIL, K_CLIENT_EXIT, K_TUNW, K_BASE_ANSWERS, K_SAN = 20 };
static int NPART = 16;
static int cur_cell, cur_part;
static char cur_desc[260];

static void viol(const char *what, const char *fmt, ...)
{
	char detail[380], sig[160];
	va_list ap; va_start(ap, fmt); vsnprintf(detail, sizeof detail, fmt, ap); va_end(ap);
	snprintf(sig, sizeof sig, "C06:%s", what);
	xp_violation(sig, "%s", detail);
}
static void on_san(const char *sig)
{
	char what[150]; snprintf(what, sizeof what, "sanitizer:%s", sig);
	xp_count(K_SAN, 1);
	viol(what, "%s", cur_desc[0] ? cur_desc : "honest run, no substitution");
}
static void on_alarm(int s) { (void)s; viol("not-processed-in-bounded-time", "client or server did not finish within 60 s of its own CPU time: %s", cur_desc); _exit(0); }

/* ---------------------------------------------------------------- cells */
typedef struct ccell { const char *qtype, *downenc; int lazy, raw, fragsize; const char *name; } ccell;
static const ccell CELLS[] = {
	{ "", "", 1, 0, 0, "autodetect (NULL)" }, { "TXT", "base128", 1, 0, 0, "-T TXT -O base128" }, { "MX", "base32", 1, 0, 200, "-T MX -O base32 -m 200" }, { "NULL", "", 1, 1, 0, "raw UDP mode" },
	{ "CNAME", "base32", 1, 0, 100, "-T CNAME" }, { "SRV", "base64", 0, 0, 200, "-T SRV -O base64 immediate" }, { "A", "base32", 1, 0, 100, "-T A" }, { "PRIVATE", "", 0, 0, 0, "-T PRIVATE immediate" },
	{ "TXT", "raw", 1, 0, 0, "-T TXT -O raw" }, { "TXT", "base64u", 0, 0, 300, "-T TXT -O base64u immediate" }, { "NULL", "", 0, 0, 1200, "-T NULL -m 1200 immediate" },
};
#define NCELLS ((int)(sizeof CELLS / sizeof CELLS[0]))

/* ---------------------------------------------------------------- state of the run */
static int tunw_count;
static int in_child;                 /* a substitution has been made in this process */
static int answer_no;                /* answers on their way to the client so far */
static int recent_ids[3];            /* DNS ids of the client's three latest queries */
static unsigned char lastq[700]; static int lastqlen;
static int64_t LAT = 3000;
#define MAXHELD 64
static struct { int used; int d; } HELD[MAXHELD];

static unsigned char wbuf[70000]; static int wlen;
static void direct_send_hook(int d) { vw_dgram *g = &W.dg[d]; wlen = g->len > (int)sizeof wbuf ? (int)sizeof wbuf : g->len; memcpy(wbuf, g->data, wlen); vw_dgram_free(d); }

/* answer to the client's latest query carrying `payload`, through the server image's real writer */
static int server_written(unsigned char *out, const unsigned char *payload, int plen, char downenc)
{
	static struct query q; static rd_msg m; char err[128]; jmp_buf jb;
	if (rd_parse(lastq, lastqlen, &m, err)) return -1;
	memset(&q, 0, sizeof q);
	rd_name_to_dotted(m.qname, m.qnamelen, q.name, sizeof q.name);
	q.type = m.qtype; q.id = m.id; memcpy(&q.from, &ns_cli_addr[1], ns_alen); q.fromlen = ns_alen;
	void (*save)(int) = W.hooks.on_send; W.hooks.on_send = direct_send_hook;
	wlen = -1;
	if (setjmp(jb) == 0) { vw_direct_begin(0, &jb); s_w_write_dns(NS_SRV_FD, &q, (const char *)payload, plen, downenc); vw_direct_end(); } else { vw_direct_end(); wlen = -1; }
	W.hooks.on_send = save;
	if (wlen <= 0) return -1;
	memcpy(out, wbuf, wlen);
	return wlen;
}

/* ---------------------------------------------------------------- "ignored means ignored": prefill experiment
 * An answer that does not match the client's latest queries must have no influence at all - also not through what it
 * leaves behind in the client's buffers.  At every answer a child first delivers an UNMATCHED answer (foreign DNS id)
 * carrying a long payload of a chosen filler, then the honest answer; the run continues honestly and must end in
 * exactly the state of the run without the extra datagram. */
#define NPRE 13
static const struct { int ch; int len; const char *d; int cut; } PRE[NPRE] = { { '9', 64, "64 x '9'" }, { '9', 700, "700 x '9'" }, { 'A', 64, "64 x 'A'" }, { 0xff, 64, "64 x 0xff" }, { 0xff, 700, "700 x 0xff" },
	{ '-', 64, "64 x '-'" }, { 0, 64, "64 zero bytes" }, { 'a', 300, "300 x 'a'" }, { '0', 40, "40 x '0'" }, { 0x80, 200, "200 x 0x80" },
	/* the same kind of datagram cut short (a relay truncating it): the decoder gives up half way, after it has stored part of
	 * the content - several host names of an MX/SRV answer, say (seeded C06-i / C12-h: a static table wiped by bookkeeping
	 * that an early return skips) */
	{ '9', 700, "700 x '9', cut at 3/4 of the datagram", 1 }, { 0xff, 700, "700 x 0xff, cut at 3/4 of the datagram", 1 }, { 'a', 900, "900 x 'a', cut 5 bytes before its end", 2 } };
/* fragment trains: from one answer on, N consecutive answers are replaced by hostile data fragments of one downstream
 * packet (same sequence number, fragment 0,1,2.., never flagged last), each carrying the largest body the record type
 * can hold.  One train = one deviation (like the burst outages of C02). */
#define NTRAIN 6
static const struct { int n, body; } TRAIN[NTRAIN] = { { 2, 33000 }, { 3, 22000 }, { 2, 4094 }, { 16, 4094 }, { 17, 4094 }, { 4, 16000 } };
static int train_left, train_seq, train_frag, train_body;
static uint64_t *REFHASH;          /* shared: final-state hash of the honest run, per job */
static int prefill_kind = -1;

static uint64_t final_state(int rc)
{
	h128 h; uint64_t o[2];
	h128_init(&h);
	h128_update(&h, &rc, sizeof rc);
	int v[8] = { ca_w_qtype(), ca_w_downenc(), ca_w_lazymode(), ca_w_conn(), ca_w_userid(), W.proc[1].state, W.proc[1].exit_code, tunw_count };
	h128_update(&h, v, sizeof v);
	const char *dn = ca_w_dataenc_name(); h128_update(&h, dn, strlen(dn));
	struct tun_user *u = s_w_users();
	int sv[6] = { u[0].fragsize, u[0].downenc, u[0].lazy, u[0].conn, u[0].authenticated, u[0].authenticated_raw };
	h128_update(&h, sv, sizeof sv);
	for (int i = 0; i < W.proc[1].nsys; i++) h128_update(&h, W.proc[1].sys[i], strlen(W.proc[1].sys[i]));
	/* what each side wrote to its tun, in that side's order; how the two sides' writes interleave is timing (an out-of-sequence
	 * reply makes the client ping sooner, by design) and not part of the comparison */
	for (int side = 0; side <= 1; side++) for (int i = 0; i < ns_nwr; i++) if (ns_wr[i].proc == side) { h128_update(&h, &ns_wr[i].proc, 4); h128_update(&h, &ns_wr[i].h0, 8); }
	h128_final(&h, o);
	if (getenv("C06_STATE_DEBUG")) {
		dprintf(2, "final-state %016llx: rc %d qtype %d downenc %c lazy %d conn %d uid %d cstate %d exit %d tunw %d enc %s | srv fragsize %d downenc %c lazy %d conn %d auth %d rawauth %d | sys %d:", (unsigned long long)(o[0] | 1), rc, v[0], v[1] > ' ' ? v[1] : '-', v[2], v[3], v[4], v[5], v[6], v[7], dn, sv[0], sv[1] > ' ' ? sv[1] : '-', sv[2], sv[3], sv[4], sv[5], W.proc[1].nsys);
		for (int i = 0; i < W.proc[1].nsys; i++) dprintf(2, " [%s]", W.proc[1].sys[i]);
		dprintf(2, " | writes:");
		for (int i = 0; i < ns_nwr; i++) dprintf(2, " %d:%016llx", ns_wr[i].proc, (unsigned long long)ns_wr[i].h0);
		dprintf(2, "\n");
	}
	return o[0] | 1;
}

/* ---------------------------------------------------------------- the hostile menu */
typedef struct item { unsigned char *d; int len; int unmatched; char desc[120]; } item;
static item *MENU; static int nmenu, menucap;
static void add_item(const unsigned char *d, int len, int unmatched, const char *fmt, ...)
{
	if (nmenu == menucap) { menucap = menucap ? menucap * 2 : 1024; MENU = realloc(MENU, sizeof *MENU * menucap); }
	item *it = &MENU[nmenu++];
	it->d = malloc(len ? len : 1); memcpy(it->d, d, len); it->len = len; it->unmatched = unmatched;
	va_list ap; va_start(ap, fmt); vsnprintf(it->desc, sizeof it->desc, fmt, ap); va_end(ap);
}
static void free_menu(void) { for (int i = 0; i < nmenu; i++) free(MENU[i].d); nmenu = 0; }

static int id_is_recent(int id) { return id == recent_ids[0] || id == recent_ids[1] || id == recent_ids[2]; }

static void payload_items(char downenc)
{
	/* step-specific and generic payloads, written into a genuine answer to the client's latest query */
	static unsigned char pl[70000], out[70000];
	struct { const char *s; int n; const char *d; } P[] = {
		{ "VACK\x11\x22\x33\x44\x00", 9, "VACK userid 0" }, { "VACK\x11\x22\x33\x44\x0f", 9, "VACK userid 15" }, { "VACK\x11\x22\x33\x44\x10", 9, "VACK userid 16" }, { "VACK\x11\x22\x33\x44\x7f", 9, "VACK userid 127" },
		{ "VACK\x11\x22\x33\x44\x80", 9, "VACK userid 128" }, { "VACK\x11\x22\x33\x44\xff", 9, "VACK userid 255" }, { "VACK\x11\x22\x33\x44", 8, "8-byte VACK" }, { "VNAK\x00\x00\x05\x02\x00", 9, "VNAK" }, { "VFUL\x00\x00\x00\x10\x00", 9, "VFUL" },
		{ "LNAK", 4, "LNAK" }, { "BADIP", 5, "BADIP" }, { "BADLEN", 6, "BADLEN" }, { "BADCODEC", 8, "BADCODEC" }, { "BADFRAG", 7, "BADFRAG" },
		{ "10.0.0.1-10.0.0.2-1130-27", 25, "login reply" }, { "10.0.0.1-10.0.0.2-1130-0", 24, "login reply netmask 0" }, { "10.0.0.1-10.0.0.2-1130-33", 25, "login reply netmask 33" }, { "10.0.0.1-10.0.0.2-1130--5", 25, "login reply netmask -5" },
		{ "10.0.0.1-10.0.0.2-99999999999-27", 32, "login reply huge mtu" }, { "----", 4, "login reply dashes" },
		{ "aaaaaaaaaaaaaaaaaaaaaaaaaaaaaaaaaaaaaaaaaaaaaaaaaaaaaaaaaaaaaaaaaaaaaaaa-bbbbbbbbbbbbbbbbbbbbbbbbbbbbbbbbbbbbbbbbbbbbbbbbbbbbbbbbbbbbbbbbbbbbbbbb-1-1", 150, "login reply with 72-char fields" },
		{ "I\x7f\x00\x00\x01", 5, "I reply v4" }, { "I\x20\x01\x0d\xb8\x00\x00\x00\x00\x00\x00\x00\x00\x00\x00\x00\x01", 17, "I reply v6" }, { "I\x01\x02", 3, "I reply 3 bytes" }, { "Ixxxxxxxxxxxxxxxxxxxxxxxxxxxxxxx", 32, "I reply 32 bytes" },
		{ "Base32", 6, "codec name Base32" }, { "Base64", 6, "codec name Base64" }, { "Base64u", 7, "codec name Base64u" }, { "Base128", 7, "codec name Base128" }, { "Raw", 3, "Raw" }, { "Lazy", 4, "Lazy" }, { "Immediate", 9, "Immediate" },
		{ "\x00\x02", 2, "fragsize ack 2" }, { "\xff\xff", 2, "fragsize ack 65535" }, { "\x00\x00", 2, "fragsize ack 0" }, { "x", 1, "1-byte illegal answer" }, { "", 0, "empty payload" },
	};
	for (unsigned i = 0; i < sizeof P / sizeof P[0]; i++) { int n = server_written(out, (const unsigned char *)P[i].s, P[i].n, downenc); if (n > 0) add_item(out, n, 0, "genuine answer carrying '%s'", P[i].d); }
	/* lengths around the buffers */
	static const int LENS[] = { 3, 5, 200, 1199, 1200, 1201, 2047, 2048, 4093, 4094, 4095, 4096, 4097, 8000 };
	for (unsigned i = 0; i < sizeof LENS / sizeof LENS[0]; i++) for (int kind = 0; kind < 2; kind++) {
		/* kind 0: fragsize-probe body (size, 107, v, v+107..), kind 1: data header + junk */
		int n = LENS[i];
		if (kind == 0) { pl[0] = n >> 8; pl[1] = n; pl[2] = 107; unsigned v = 9; for (int k = 3; k < n; k++, v = (v + 107) & 0xff) pl[k] = v; }
		else { pl[0] = 0x80; pl[1] = (3 << 5) | 1; for (int k = 2; k < n; k++) pl[k] = k * 31; }
		int w = server_written(out, pl, n, downenc);
		if (w > 0) add_item(out, w, 0, "genuine answer carrying a %d-byte %s", n, kind ? "data fragment of junk" : "probe body");
		if (kind == 0 && n > 40) { pl[n / 2] ^= 0x55; w = server_written(out, pl, n, downenc); if (w > 0) add_item(out, w, 0, "genuine answer carrying a %d-byte probe body with one corrupted byte", n); }
	}
	/* answers that fill the client's buffers with non-zero bytes and whose record (or question) claims another type: what one
	 * branch of the decoder copied as raw bytes is then handled as text by the branch for the claimed type */
	{
		static const int BL[] = { 300, 4094, 4096, 4100, 8000 };
		static const int TY[] = { 15, 33, 16, 5, 1, 10, 65399 };
		static rd_msg bm; char err[128];
		for (unsigned i = 0; i < sizeof BL / sizeof BL[0]; i++) {
			int n = BL[i];
			pl[0] = 0x80; pl[1] = (3 << 5) | 1; for (int k = 2; k < n; k++) pl[k] = (k % 255) + 1;
			int w = server_written(out, pl, n, downenc);
			if (w <= 0 || rd_parse(out, w, &bm, err) || bm.nrr < 1) continue;
			int tpos = bm.rr[0].rdoff - 10, qpos = 12 + bm.qnamelen;
			for (unsigned t = 0; t < sizeof TY / sizeof TY[0]; t++) {
				if (TY[t] == bm.rr[0].type) continue;
				unsigned char sv0 = out[tpos], sv1 = out[tpos + 1];
				out[tpos] = TY[t] >> 8; out[tpos + 1] = TY[t];
				add_item(out, w, 0, "genuine answer carrying %d non-zero bytes whose record claims type %d", n, TY[t]);
				unsigned char q0 = out[qpos], q1 = out[qpos + 1];
				out[qpos] = TY[t] >> 8; out[qpos + 1] = TY[t];
				add_item(out, w, 0, "genuine answer carrying %d non-zero bytes whose record and question claim type %d", n, TY[t]);
				out[tpos] = sv0; out[tpos + 1] = sv1; out[qpos] = q0; out[qpos + 1] = q1;
			}
		}
		/* the same with a first byte that the hostname decoders dispatch on ('R' raw, 'h' Base32 ...): the first part then decodes
		 * to something and the MX/SRV reassembly loop goes round a second time over the unterminated buffer */
		static const int BL2[] = { 2100, 4096 };
		static const char FB[] = "RrhT";
		for (unsigned i = 0; i < 2; i++) for (unsigned f = 0; f < 4; f++) {
			int n = BL2[i];
			pl[0] = FB[f]; for (int k = 1; k < n; k++) pl[k] = (k % 255) + 1;
			int w = server_written(out, pl, n, downenc);
			if (w <= 0 || rd_parse(out, w, &bm, err) || bm.nrr < 1) continue;
			int tpos = bm.rr[0].rdoff - 10;
			for (int t = 15; t <= 33; t += 18) {
				if (t == bm.rr[0].type) continue;
				unsigned char sv0 = out[tpos], sv1 = out[tpos + 1];
				out[tpos] = t >> 8; out[tpos + 1] = t;
				add_item(out, w, 0, "genuine answer carrying %d non-zero bytes starting with '%c' whose record claims type %d", n, FB[f], t);
				out[tpos] = sv0; out[tpos + 1] = sv1;
			}
		}
	}
	/* data headers: every downstream seq / a few fragment numbers / last flag, bodies: valid packet, invalid zlib, inflating beyond 64 KB */
	unsigned char ip[100], z[200]; int l = tm_ippkt(ip, 40, 0xC0A80101u, 0x0A000002, 4242), zl = tm_compress(ip, l, z, sizeof z);
	static unsigned char big[66000]; unsigned char zbig[1000]; memset(big, 0, sizeof big); big[2] = 8; int zbl = tm_compress(big, 66000, zbig, sizeof zbig);
	for (int seq = 0; seq < 8; seq++) for (int frag = 0; frag < 16; frag += 5) for (int last = 0; last < 2; last++) for (int body = 0; body < 3; body++) {
		if (!thorough && ((seq + frag + body) & 1)) continue;
		const unsigned char *b = body == 0 ? z : body == 1 ? (const unsigned char *)"certainly not a zlib stream" : zbig; int bl = body == 0 ? zl : body == 1 ? 27 : zbl;
		pl[0] = 0x80 | (seq << 4) | frag; pl[1] = (seq << 5) | (frag << 1) | last; memcpy(pl + 2, b, bl);
		int w = server_written(out, pl, 2 + bl, downenc);
		if (w > 0) add_item(out, w, 0, "genuine data answer: downstream seq %d frag %d last %d, body %s", seq, frag, last, body == 0 ? "a valid packet" : body == 1 ? "invalid zlib" : "inflating to 66000 bytes");
	}
}

static void build_menu(const unsigned char *a, int len, char downenc)
{
	static unsigned char v[70000];
	static rd_msg m; char err[128];
	free_menu();
	/* truncations */
	for (int k = 0; k < len; k += (k < 64 || k > len - 24) ? 1 : 7) add_item(a, k, 0, "answer truncated to %d of %d bytes", k, len);
	int parsed = !rd_parse(a, len, &m, err);
	if (len >= 12) {
		static const int CNT[] = { 0, 2, 250, 251, 65535 };
		for (int f = 0; f < 4; f++) for (int c = 0; c < 5; c++) { memcpy(v, a, len); v[4 + 2 * f] = CNT[c] >> 8; v[5 + 2 * f] = CNT[c]; add_item(v, len, 0, "answer with header count %d set to %d", f, CNT[c]); }
		for (int rc = 0; rc < 16; rc++) { memcpy(v, a, len); v[3] = (v[3] & 0xf0) | rc; add_item(v, len, 0, "answer with RCODE %d", rc); memcpy(v, a, len); v[3] = rc; v[6] = v[7] = 0; add_item(v, len, 0, "answer with RCODE %d and ANCOUNT 0", rc); }
		memcpy(v, a, len); v[2] &= 0x7f; add_item(v, len, 0, "answer with QR cleared");
		memcpy(v, a, len); v[2] |= 0x02; add_item(v, len, 0, "answer with TC set");
		int id = (a[0] << 8) | a[1];
		static const int DID[] = { -1, 3, 0x100, 0x5555 };
		for (int i = 0; i < 4; i++) { int nid = (id + DID[i]) & 0xffff; memcpy(v, a, len); v[0] = nid >> 8; v[1] = nid; add_item(v, len, !id_is_recent(nid), "answer with DNS id %d instead of %d", nid, id); }
		memcpy(v, a, len); v[0] = v[1] = 0; add_item(v, len, !id_is_recent(0), "answer with DNS id 0");
		if (len > 14) { memcpy(v, a, len); v[13] ^= 0x20; add_item(v, len, 0, "answer with the first question character case-flipped"); memcpy(v, a, len); v[13] = 'q'; add_item(v, len, 0, "answer with the first question character replaced by 'q'"); }
	}
	if (parsed && m.nrr >= 1) {
		const rd_rr *r = &m.rr[0];
		int lenpos = r->rdoff - 2, rem = len - r->rdoff;
		int vals[] = { 0, 1, r->rdlen - 1, r->rdlen + 1, rem + 1, 4095, 4096, 4097, 65535 };
		for (unsigned i = 0; i < sizeof vals / sizeof vals[0]; i++) { if (vals[i] < 0) continue; memcpy(v, a, len); v[lenpos] = vals[i] >> 8; v[lenpos + 1] = vals[i]; add_item(v, len, 0, "answer with RDLENGTH %d (was %d, %d bytes follow)", vals[i], r->rdlen, rem); }
		/* record type changed */
		static const int TY[] = { 10, 16, 5, 15, 33, 1, 65399, 2, 41 };
		for (unsigned i = 0; i < sizeof TY / sizeof TY[0]; i++) { memcpy(v, a, len); v[r->rdoff - 10] = TY[i] >> 8; v[r->rdoff - 9] = TY[i]; add_item(v, len, 0, "answer whose record claims type %d", TY[i]); memcpy(v, a, len); int qt = 12 + m.qnamelen; v[qt] = TY[i] >> 8; v[qt + 1] = TY[i]; add_item(v, len, 0, "answer whose question claims type %d", TY[i]); }
		/* owner name: loops and forward pointers */
		int own = r->rdoff - 12;
		if (own >= 12 && a[own] == 0xc0) {
			int PT[] = { own, own + 1, len - 1, len, len + 1, 0x3fff, 0, 11 };
			for (unsigned i = 0; i < sizeof PT / sizeof PT[0]; i++) { memcpy(v, a, len); v[own] = 0xc0 | (PT[i] >> 8); v[own + 1] = PT[i]; add_item(v, len, 0, "answer whose owner name points to offset %d", PT[i]); }
		}
		/* names that EXPAND beyond any name buffer: ordinary labels followed by a compression pointer (to themselves,
		 * to the question, or to labels inside the record data), in the question, the owner name and the record target */
		{
			int qn = m.qnamelen, qt_off = 12 + qn;                      /* the honest server never compresses the question */
			static unsigned char lab[800];
			for (int nl = 1; nl <= 3; nl++) for (int ll = 1; ll <= 63; ll += 31) for (int where = 0; where < 4; where++) {
				/* prefix = nl labels of ll bytes */
				int pl = 0;
				for (int i = 0; i < nl; i++) { lab[pl++] = ll; memset(lab + pl, 'a' + i, ll); pl += ll; }
				int n = 0;
				memcpy(v, a, 12); v[4] = 0; v[5] = 1; v[6] = 0; v[7] = 1; v[8] = v[9] = v[10] = v[11] = 0; n = 12;
				if (where == 0) {
					/* question: prefix + pointer to the question itself; owner: pointer to it */
					memcpy(v + n, lab, pl); n += pl; v[n++] = 0xc0; v[n++] = 12;
					memcpy(v + n, a + qt_off, 4); n += 4;
					v[n++] = 0xc0; v[n++] = 12;
					memcpy(v + n, a + r->rdoff - 10, 10 + r->rdlen); n += 10 + r->rdlen;
				} else if (where == 1) {
					/* honest question; owner: prefix + pointer to the (up to 255-byte) question */
					memcpy(v + n, a + 12, qn + 4); n += qn + 4;
					memcpy(v + n, lab, pl); n += pl; v[n++] = 0xc0; v[n++] = 12;
					memcpy(v + n, a + r->rdoff - 10, 10 + r->rdlen); n += 10 + r->rdlen;
				} else {
					/* honest question and owner; record data: [preference etc.] prefix + pointer to the prefix (where 2) or to the question (where 3) */
					int fixed = r->type == 15 ? 2 : r->type == 33 ? 6 : 0;
					if (r->type != 5 && r->type != 15 && r->type != 33 && r->type != 1) continue;
					memcpy(v + n, a + 12, qn + 4); n += qn + 4;
					v[n++] = 0xc0; v[n++] = 12;
					memcpy(v + n, a + r->rdoff - 10, 8); n += 8;
					int rl = fixed + pl + 2; v[n++] = rl >> 8; v[n++] = rl;
					memcpy(v + n, a + r->rdoff, fixed); n += fixed;
					int tgt = n;
					memcpy(v + n, lab, pl); n += pl; v[n++] = 0xc0 | ((where == 2 ? tgt : 12) >> 8); v[n++] = (where == 2 ? tgt : 12);
				}
				add_item(v, n, where == 0, "answer with %d labels of %d bytes followed by a compression pointer in the %s", nl, ll,
					 where == 0 ? "question (pointing to itself)" : where == 1 ? "owner name (pointing to the question)" : where == 2 ? "record target (pointing to itself)" : "record target (pointing to the question)");
			}
		}
		/* question name replaced by a pointer loop */
		memcpy(v, a, len); v[12] = 0xc0; v[13] = 12; add_item(v, len, 0, "answer whose question name is a pointer to itself");
		if (r->type == 16) {
			/* TXT chunkings */
			int p = r->rdoff;
			memcpy(v, a, len); v[p] = 255; add_item(v, len, 0, "TXT answer: first string claims 255 bytes");
			memcpy(v, a, len); v[p] = 0; add_item(v, len, 0, "TXT answer: first string has length 0");
			memcpy(v, a, len); v[p] = (unsigned char)(r->rdlen); add_item(v, len, 0, "TXT answer: first string one byte longer than the record");
			/* every downstream prefix byte */
			for (int c = 0; c < 256; c++) { memcpy(v, a, len); v[p + 1] = c; add_item(v, len, 0, "TXT answer with codec prefix byte 0x%02x", c); }
			/* a record of zero-length strings only */
			memcpy(v, a, len); for (int k = p; k < r->rdoff + r->rdlen; k++) v[k] = 0; add_item(v, len, 0, "TXT answer consisting of zero-length strings");
		}
		if (r->type == 5 || r->type == 15 || r->type == 33) {
			int hdr = r->type == 15 ? 2 : r->type == 33 ? 6 : 0, p = r->rdoff + hdr;
			for (int c = 0; c < 256; c++) { if (!thorough && (c & 1) && c > 128) continue; memcpy(v, a, len); v[p + 1] = c; add_item(v, len, 0, "hostname answer with codec prefix byte 0x%02x", c); }
			memcpy(v, a, len); v[p] = 0xc0; v[p + 1] = p; add_item(v, len, 0, "hostname answer whose target is a pointer to itself");
			memcpy(v, a, len); v[p] = 0xc0 | ((len + 5) >> 8); v[p + 1] = len + 5; add_item(v, len, 0, "hostname answer whose target points past the message");
			memcpy(v, a, len); v[p] = 64; add_item(v, len, 0, "hostname answer whose first target label claims 64 bytes");
			memcpy(v, a, len); v[p] = 200; add_item(v, len, 0, "hostname answer whose first target label claims 200 bytes");
			if (r->type != 5) {
				static const int PREF[] = { 0, 5, 20, 2490, 2500, 65535 };
				for (unsigned i = 0; i < sizeof PREF / sizeof PREF[0]; i++) { memcpy(v, a, len); v[r->rdoff] = PREF[i] >> 8; v[r->rdoff + 1] = PREF[i]; add_item(v, len, 0, "MX/SRV answer whose first record has preference %d", PREF[i]); }
				/* 260 records: the same record repeated with preferences 10,20,..,2600 */
				int reclen = r->rdoff + r->rdlen - (r->rdoff - 12), base = r->rdoff - 12;
				if (reclen > 0 && reclen < 300) {
					for (int variant = 0; variant < 3; variant++) {
						int n = base; memcpy(v, a, base);
						int count = variant == 0 ? 260 : variant == 1 ? 250 : 251;
						for (int k = 0; k < count && n + reclen < 65000; k++) { memcpy(v + n, a + base, reclen); int pr = variant == 2 ? 10 : 10 * (k + 1); v[n + 12] = pr >> 8; v[n + 13] = pr; n += reclen; }
						v[6] = count >> 8; v[7] = count; v[10] = v[11] = 0;
						add_item(v, n, 0, "MX/SRV answer with %d records (%s)", count, variant == 2 ? "all with preference 10" : "preferences 10,20,..");
					}
				}
			}
		}
		if (r->type == 10 || r->type == 65399) {
			for (int c = 0; c < 256; c += (thorough ? 1 : 3)) { memcpy(v, a, len); v[r->rdoff] = c; add_item(v, len, 0, "NULL answer with first payload byte 0x%02x", c); }
			if (r->rdlen > 1) for (int c = 0; c < 256; c += 5) { memcpy(v, a, len); v[r->rdoff + 1] = c; add_item(v, len, 0, "NULL answer with second payload byte 0x%02x", c); }
		}
	}
	payload_items(downenc);
	/* not DNS at all */
	memset(v, 0xff, 64); add_item(v, 64, 0, "64 bytes of 0xff"); add_item(v, 11, 0, "11 bytes of 0xff"); memset(v, 0, 64); add_item(v, 64, 0, "64 zero bytes");
}

static void raw_menu(const unsigned char *a, int len)
{
	static unsigned char v[66000];
	free_menu();
	static const int LENS[] = { 0, 1, 2, 3, 4, 5, 6, 8, 12, 19, 20, 21, 40, 4100, 65507 };
	for (unsigned l = 0; l < sizeof LENS / sizeof LENS[0]; l++) for (int cmd = 0; cmd < 16; cmd++) for (int u = 0; u < 16; u += 5) {
		memset(v, 0x40 + cmd, LENS[l]);
		if (LENS[l] > 0) v[0] = 0x10; if (LENS[l] > 1) v[1] = 0xd1; if (LENS[l] > 2) v[2] = 0x9e; if (LENS[l] > 3) v[3] = (cmd << 4) | u;
		add_item(v, LENS[l], 0, "raw frame of %d bytes, command nibble %d, user nibble %d", LENS[l], cmd, u);
	}
	for (int k = 0; k < len; k++) add_item(a, k, 0, "raw frame truncated to %d of %d bytes", k, len);
	/* raw data frames: valid zlib of a huge packet, invalid zlib */
	static unsigned char big[66000]; unsigned char zbig[1000]; memset(big, 0, sizeof big); big[2] = 8; int zbl = tm_compress(big, 66000, zbig, sizeof zbig);
	for (int u = 0; u < 16; u++) { int n = tm_raw(v, 0x20, u, zbig, zbl); add_item(v, n, 0, "raw data for user nibble %d inflating to 66000 bytes", u); n = tm_raw(v, 0x20, u, (const unsigned char *)"garbage, not zlib", 17); add_item(v, n, 0, "raw data for user nibble %d with invalid zlib", u); }
}

/* ---------------------------------------------------------------- network hooks */
typedef struct cstate { int in_seq, in_frag, in_len, in_off, out_seq, out_frag, out_len, out_off; uint64_t h[2]; } cstate;
static void get_cstate(cstate *c)
{
	struct packet *i = ca_w_inpkt(), *o = ca_w_outpkt();
	memset(c, 0, sizeof *c);
	c->in_seq = i->seqno; c->in_frag = i->fragment; c->in_len = i->len; c->in_off = i->offset;
	c->out_seq = o->seqno; c->out_frag = o->fragment; c->out_len = o->len; c->out_off = o->offset;
	h128 h; h128_init(&h);
	int n = i->len; if (n < 0) n = 0; if (n > (int)sizeof i->data) n = sizeof i->data;
	h128_update(&h, i->data, n);
	h128_final(&h, c->h);
}
static void mon_tunw(int proc, const unsigned char *data, int len, int matched) { (void)data; (void)len; (void)matched; if (proc == 1) { tunw_count++; xp_count(K_TUNW, 1); } }

/* pairs: an unmatched answer (foreign DNS id) whose decoded payload starts with one of the bytes the client's decoders
 * dispatch on, then the answer under test replaced by one of the menu's degenerate (empty-content) items: what the
 * first datagram left in the client's buffers must not matter to how the second is handled.  One pair = one deviation. */
static const char PAIR_FIRST[] = "hHtTsSuUvVrR";
#define NPAIRFIRST 12
static int SEC[64], nsec;
static void find_second_items(void)
{
	static const char *const KEY[] = { "zero-length strings", "first string has length 0", "RDLENGTH 0 ", "RDLENGTH 1 ", "'empty payload'", "header count 1 set to 0", "with RCODE 0 and ANCOUNT 0", "truncated to 12 of", NULL };
	nsec = 0;
	for (int i = 0; i < nmenu && nsec < 64; i++) for (int k = 0; KEY[k]; k++) if (strstr(MENU[i].desc, KEY[k])) { SEC[nsec++] = i; break; }
}
static void deliver_to_client(const unsigned char *data, int len);
static int server_written(unsigned char *out, const unsigned char *payload, int plen, char downenc);
static void do_pair(int p, int d, char de, int replay)
{
	static unsigned char pl[64], out[70000];
	int first = PAIR_FIRST[p / nsec], sec = SEC[p % nsec];
	pl[0] = first; pl[1] = (3 << 5) | 1; for (int k = 2; k < 42; k++) pl[k] = 'A' + k % 26;
	int n = server_written(out, pl, 42, de);
	snprintf(cur_desc, sizeof cur_desc, "%s, before answer #%d an unmatched answer (foreign DNS id) whose payload starts with '%c' is delivered, then the answer is replaced by: %s", CELLS[cur_cell].name, answer_no, first, MENU[sec].desc);
	if (replay) printf("replay: %s\n", cur_desc);
	if (n > 0) {
		int nid = ((out[0] << 8) | out[1]) ^ 0x5a5a;
		while (id_is_recent(nid)) nid = (nid + 1) & 0xffff;
		out[0] = nid >> 8; out[1] = nid;
		deliver_to_client(out, n);
		vw_run_quiescent(0);
	}
	deliver_to_client(MENU[sec].d, MENU[sec].len);
	vw_dgram_free(d);
}

static void my_on_send(int d)
{
	vw_dgram *g = &W.dg[d];
	if (g->from_proc != 0) {
		/* client -> server: remember ids and the latest query, deliver */
		if (g->len >= 12 && !(g->data[0] == 0x10 && g->data[1] == 0xd1 && g->data[2] == 0x9e)) {
			recent_ids[2] = recent_ids[1]; recent_ids[1] = recent_ids[0]; recent_ids[0] = (g->data[0] << 8) | g->data[1];
			lastqlen = g->len > 700 ? 700 : g->len; memcpy(lastq, g->data, lastqlen);
		}
		int si = vw_sock_find(&g->dst);
		if (si < 0) { vw_dgram_free(d); return; }
		vw_deliver_at(d, si, W.now + LAT);
		return;
	}
	/* server -> client: hand it to the scheduler context, where substitution happens */
	for (int i = 0; i < MAXHELD; i++) if (!HELD[i].used) { HELD[i].used = 1; HELD[i].d = d; vw_callback_at(W.now + LAT, i, 0); return; }
	vw_fatal("held table full");
}

static void deliver_to_client(const unsigned char *data, int len)
{
	int c = vw_dgram_new(&ns_srv_addr, ns_alen, &ns_cli_addr[1], ns_alen, data, len, -1);
	vw_deliver_now(c, ns_cli_sock[1]);
}

static void deliver_to_client(const unsigned char *data, int len);
static void train_step(int d)
{
	static unsigned char pl[34000], out[70000];
	char de = s_w_users()[0].downenc ? s_w_users()[0].downenc : 'T';
	pl[0] = 0x80; pl[1] = (train_seq << 5) | ((train_frag & 15) << 1);
	for (int k = 2; k < 2 + train_body; k++) pl[k] = (unsigned char)(k * 131 + train_frag);
	int n = server_written(out, pl, 2 + train_body, de);
	train_left--; train_frag++;
	vw_dgram_free(d);
	if (n > 0) deliver_to_client(out, n);
}

static void on_callback(int slot, int b)
{
	(void)b;
	int d = HELD[slot].d;
	HELD[slot].used = 0;
	vw_dgram *g = &W.dg[d];
	if (!vw_addr_eq(&g->dst, &ns_cli_addr[1])) { vw_dgram_free(d); return; }
	answer_no++;
	if (in_child && train_left > 0 && !(g->len >= 3 && g->data[0] == 0x10 && g->data[1] == 0xd1 && g->data[2] == 0x9e)) { train_step(d); return; }
	if (!in_child) xp_count(K_BASE_ANSWERS, cur_part == 0);
	if (!in_child && !xp_expired()) {
		int israw = g->len >= 3 && g->data[0] == 0x10 && g->data[1] == 0xd1 && g->data[2] == 0x9e;
		char de = s_w_users()[0].downenc ? s_w_users()[0].downenc : 'T';
		if (israw) { raw_menu(g->data, g->len); nsec = 0; } else { build_menu(g->data, g->len, de); find_second_items(); }
		for (int i = cur_part; i < nmenu + (israw ? 0 : NPRE + NTRAIN + NPAIRFIRST * nsec); i += NPART) {
			if (getenv("C06_FILTER") && (i >= nmenu || !strstr(MENU[i].desc, getenv("C06_FILTER")))) continue;      /* debugging aid: only matching menu items */
			if (getenv("C06_DUMP") && i < nmenu) { FILE *f = fopen(getenv("C06_DUMP"), "wb"); if (f) { fwrite(MENU[i].d, 1, MENU[i].len, f); fclose(f); } char tn[300]; snprintf(tn, sizeof tn, "%s.txt", getenv("C06_DUMP")); FILE *g = fopen(tn, "a"); if (g) { fprintf(g, "job %d cell %d part %d: item %d at answer %d: %s (%d bytes)\n", XC.job, cur_cell, cur_part, i, answer_no, MENU[i].desc, MENU[i].len); fclose(g); } }
			if (xp_fork_wait() != 0) continue;
			/* child */
			in_child = 1;
			XC.path[0].cp = answer_no; XC.path[0].alt = i; XC.npath = 1;
			hc_cpu_alarm(60);
			if (i >= nmenu + NPRE + NTRAIN) { xp_count(K_SUBST, 1); do_pair(i - nmenu - NPRE - NTRAIN, d, de, 0); return; }
			if (i >= nmenu + NPRE) {
				int t = i - nmenu - NPRE;
				train_left = TRAIN[t].n; train_body = TRAIN[t].body; train_frag = 0; train_seq = (ca_w_inpkt()->seqno + 1) & 7;
				snprintf(cur_desc, sizeof cur_desc, "%s, from answer #%d on, %d consecutive answers are replaced by fragments 0..%d of one downstream packet (seq %d), %d body bytes each", CELLS[cur_cell].name, answer_no, TRAIN[t].n, TRAIN[t].n - 1, train_seq, TRAIN[t].body);
				xp_count(K_SUBST, 1);
				train_step(d);
				return;
			}
			if (i >= nmenu) {
				/* prefill: an unmatched answer with a long payload first, then the honest answer */
				static unsigned char pl[1000], out[70000];
				int k = i - nmenu;
				memset(pl, PRE[k].ch, PRE[k].len);
				int n = server_written(out, pl, PRE[k].len, de);
				if (n > 40 && PRE[k].cut == 1) n = n * 3 / 4;
				if (n > 40 && PRE[k].cut == 2) n -= 5;
				prefill_kind = k;
				snprintf(cur_desc, sizeof cur_desc, "%s, before answer #%d (to query id %d) an unmatched answer (foreign DNS id) carrying %s is delivered", CELLS[cur_cell].name, answer_no, recent_ids[0], PRE[k].d);
				xp_count(K_UNMATCHED_CHECKS, 1);
				if (n > 0) {
					int nid = ((out[0] << 8) | out[1]) ^ 0x5a5a;
					while (id_is_recent(nid)) nid = (nid + 1) & 0xffff;
					out[0] = nid >> 8; out[1] = nid;
					deliver_to_client(out, n);
					vw_run_quiescent(0);
				}
				break;          /* fall through to the honest delivery below */
			}
			snprintf(cur_desc, sizeof cur_desc, "%s, answer #%d (%d bytes, to query id %d) replaced by: %s", CELLS[cur_cell].name, answer_no, g->len, recent_ids[0], MENU[i].desc);
			xp_count(K_SUBST, 1);
			cstate before, after; int tw0 = tunw_count;
			if (MENU[i].unmatched) get_cstate(&before);
			deliver_to_client(MENU[i].d, MENU[i].len);
			vw_dgram_free(d);
			if (MENU[i].unmatched) {
				vw_run_quiescent(0);
				get_cstate(&after);
				xp_count(K_UNMATCHED_CHECKS, 1);
				if (tunw_count != tw0) viol("unmatched-reply-delivered", "%s: the client wrote a packet to its tun", cur_desc);
				if (memcmp(&before, &after, sizeof before)) viol("unmatched-reply-changed-reassembly-state", "%s: reassembly state changed (in %d/%d len %d -> %d/%d len %d; out %d/%d off %d -> %d/%d off %d)", cur_desc,
					before.in_seq, before.in_frag, before.in_len, after.in_seq, after.in_frag, after.in_len, before.out_seq, before.out_frag, before.out_off, after.out_seq, after.out_frag, after.out_off);
			}
			return;
		}
		if (!in_child) { if (xp_expired()) __atomic_fetch_add(&XS->incomplete, 1, __ATOMIC_RELAXED); xp_count(K_ANSWERS, 1); }
	}
	if (XC.replay && !in_child && XC.npath && XC.path[0].cp == answer_no) {
		int israw = g->len >= 3 && g->data[0] == 0x10 && g->data[1] == 0xd1 && g->data[2] == 0x9e;
		char de = s_w_users()[0].downenc ? s_w_users()[0].downenc : 'T';
		if (israw) { raw_menu(g->data, g->len); nsec = 0; } else { build_menu(g->data, g->len, de); find_second_items(); }
		int i = XC.path[0].alt;
		if (i >= nmenu + NPRE + NTRAIN + NPAIRFIRST * nsec) { dprintf(1, "HARNESS-ERROR replay menu item out of range\n"); _exit(2); }
		in_child = 1;
		if (i >= nmenu + NPRE + NTRAIN) { do_pair(i - nmenu - NPRE - NTRAIN, d, de, 1); return; }
		if (i >= nmenu + NPRE) {
			int t = i - nmenu - NPRE;
			train_left = TRAIN[t].n; train_body = TRAIN[t].body; train_frag = 0; train_seq = (ca_w_inpkt()->seqno + 1) & 7;
			snprintf(cur_desc, sizeof cur_desc, "%s, from answer #%d on, %d consecutive answers are replaced by fragments 0..%d of one downstream packet (seq %d), %d body bytes each", CELLS[cur_cell].name, answer_no, TRAIN[t].n, TRAIN[t].n - 1, train_seq, TRAIN[t].body);
			printf("replay: %s\n", cur_desc);
			train_step(d);
			return;
		}
		if (i >= nmenu) {
			static unsigned char pl[1000], out[70000];
			int k = i - nmenu;
			memset(pl, PRE[k].ch, PRE[k].len);
			int n = server_written(out, pl, PRE[k].len, de);
			if (n > 40 && PRE[k].cut == 1) n = n * 3 / 4;
			if (n > 40 && PRE[k].cut == 2) n -= 5;
			prefill_kind = k;
			snprintf(cur_desc, sizeof cur_desc, "%s, before answer #%d (to query id %d) an unmatched answer (foreign DNS id) carrying %s is delivered", CELLS[cur_cell].name, answer_no, recent_ids[0], PRE[k].d);
			printf("replay: %s\n", cur_desc);
			if (n > 0) { int nid = ((out[0] << 8) | out[1]) ^ 0x5a5a; while (id_is_recent(nid)) nid = (nid + 1) & 0xffff; out[0] = nid >> 8; out[1] = nid; deliver_to_client(out, n); vw_run_quiescent(0); }
			goto honest;
		}
		snprintf(cur_desc, sizeof cur_desc, "%s, answer #%d (%d bytes, to query id %d) replaced by: %s", CELLS[cur_cell].name, answer_no, g->len, recent_ids[0], MENU[i].desc);
		printf("replay: %s\n", cur_desc);
		cstate before, after; int tw0 = tunw_count;
		if (MENU[i].unmatched) get_cstate(&before);
		deliver_to_client(MENU[i].d, MENU[i].len);
		vw_dgram_free(d);
		if (MENU[i].unmatched) {
			vw_run_quiescent(0); get_cstate(&after);
			if (tunw_count != tw0) viol("unmatched-reply-delivered", "%s: the client wrote a packet to its tun", cur_desc);
			if (memcmp(&before, &after, sizeof before)) viol("unmatched-reply-changed-reassembly-state", "%s: reassembly state changed", cur_desc);
		}
		return;
	}
honest:;
	/* honest delivery */
	int si = vw_sock_find(&g->dst);
	if (si < 0) { vw_dgram_free(d); return; }
	vw_deliver_now(d, si);
}

static void install(void)
{
	W.hooks.on_send = my_on_send;
	W.hooks.on_callback = on_callback;
	W.hooks.on_sanitizer = on_san;
}

static void job(int j)
{
	cur_cell = j / NPART; cur_part = j % NPART;
	const ccell *c = &CELLS[cur_cell];
	ns_cfg cfg; ns_defaults(&cfg);
	cfg.qtype = c->qtype; cfg.downenc = c->downenc; cfg.lazy = c->lazy; cfg.raw = c->raw; cfg.fragsize = c->fragsize;
	in_child = 0; answer_no = 0; cur_desc[0] = 0; memset(HELD, 0, sizeof HELD); tunw_count = 0; prefill_kind = -1; train_left = 0;
	int is_reference = 0;
	if (!XC.replay) {
		/* reference: the honest run without any choice point, in a child; its final state goes to shared memory */
		REFHASH[j] = 0;
		if (xp_fork_wait() == 0) { in_child = 1; is_reference = 1; }
	}
	ns_install_hooks = install;
	ns_mon_tun_write = mon_tunw;
	signal(SIGPROF, on_alarm);
	hc_cpu_alarm(600);
	int rc = ns_boot(&cfg, 200 * 1000000LL);
	if (rc == 0) {
		xp_count(K_HS_OK, 1);
		unsigned char p[400];
		int64_t t0 = W.now + 50000;
		for (int i = 0; i < 3; i++) { int n = ns_mkpkt(p, i == 1 ? 300 : 60, 0x0A000002, 10 + i, i == 2); vw_tun_offer_at(ns_srv_tun, t0 + 200000 * (i + 1), p, n, 10 + i); n = ns_mkpkt(p, 80, 0x0A000001, 20 + i, 0); vw_tun_offer_at(ns_cli_tun[1], t0 + 150000 * (i + 1), p, n, 20 + i); }
		int64_t until = t0 + (thorough ? 12 : 6) * 1000000LL;
		long n = 0;
		while (n++ < 200000) { int64_t t = vw_next_time(); if (t == VW_NEVER || t > until) break; if (!vw_step()) break; }
	} else xp_count(K_HS_FAIL, 1);
	if (!vw_alive(1) && W.proc[1].state == VW_P_EXITED) xp_count(K_CLIENT_EXIT, 1);
	hc_cpu_alarm(0);
	if (is_reference) { REFHASH[j] = final_state(rc); xp_child_exit(); }
	if (prefill_kind >= 0 && !XC.replay) {
		if (!REFHASH[j]) vw_fatal("no reference state for job %d", j);
		if (final_state(rc) != REFHASH[j])
			viol("ignored-reply-influenced-the-client", "%s, then the honest answer: the run ends in a different state than without the extra datagram (handshake result %d, type %d, downstream '%c', upstream %s, client state %d exit %d, %d tun writes, commands run: %d)",
			     cur_desc, rc, ca_w_qtype(), ca_w_downenc() > ' ' ? ca_w_downenc() : '-', ca_w_dataenc_name(), W.proc[1].state, W.proc[1].exit_code, tunw_count, W.proc[1].nsys);
	}
	if (prefill_kind >= 0 && XC.replay) {
		/* replay: compute the reference in this process tree first (fork), then compare */
		printf("replay: final state %016llx (handshake result %d, client state %d exit %d, %d tun writes)\n", (unsigned long long)final_state(rc), rc, W.proc[1].state, W.proc[1].exit_code, tunw_count);
		if (REFHASH[j] && final_state(rc) != REFHASH[j]) viol("ignored-reply-influenced-the-client", "%s: final state differs from the honest run", cur_desc);
	}
	xp_outcome(((uint64_t)cur_cell << 40) ^ ((uint64_t)(rc & 0xff) << 32) ^ ((uint64_t)W.proc[1].state << 24) ^ ((uint64_t)(W.proc[1].exit_code & 0xff) << 16) ^ (uint64_t)(tunw_count & 0xff) ^ ((uint64_t)in_child << 50));
	if (!in_child && cur_part == 0) xp_sample("%s: honest run has %d answers on their way to the client (handshake result %d); each is replaced by every item of a menu built from it (e.g. %d items for the last answer)", c->name, answer_no, rc, nmenu);
	__atomic_fetch_add(&XS->execs, 1, __ATOMIC_RELAXED);
	if (in_child) xp_child_exit();
}
static void describe_job(int j, char *b, size_t n) { snprintf(b, n, "cell %s, menu partition %d of %d", CELLS[j / NPART].name, j % NPART, NPART); }

int main(int argc, char **argv)
{
	hc_args a = hc_parse(argc, argv, "C06");
	thorough = a.thorough;
	{ const struct encoder *e[4] = { &s_base32_ops, &s_base64_ops, &s_base64u_ops, &s_base128_ops }; for (int k = 0; k < 4; k++) ref_calibrate(k, e[k]->encode); }
	xp_describe_job = describe_job;
	xp_init("C06", a.tier, 1024, a.budget_s);
	REFHASH = mmap(NULL, sizeof(uint64_t) * 4096, PROT_READ | PROT_WRITE, MAP_SHARED | MAP_ANONYMOUS, -1, 0);
	if (a.replay) {
		int j = xp_load_replay(a.replay);
		/* the honest reference first (in a child, without following the recorded choice) */
		pid_t pid = fork();
		if (pid == 0) { XC.replay = 0; XC.npath = 0; in_child = 1; NPART = 1 << 30; /* no forking: partitions beyond every menu */
			cur_cell = j / 16; cur_part = 1 << 29; job(j); _exit(0); }
		int st; waitpid(pid, &st, 0);
		job(j); return 0;
	}
	hc_quiet();
	int ncells = thorough ? NCELLS : 4;
	xp_run_jobs(ncells * NPART, job, a.workers);
	XS->states = XS->execs; XS->transitions = XS->counters[K_SUBST] + XS->counters[K_ANSWERS];
	char extra[400];
	snprintf(extra, sizeof extra, "\"cells\":%d,\"answers_in_honest_runs\":%ld,\"substitutions\":%ld,\"unmatched_reply_checks\":%ld,\"handshakes_completed\":%ld,\"handshakes_failed\":%ld,\"client_exits\":%ld,\"client_tun_writes\":%ld,\"sanitizer_reports\":%ld",
		 ncells, XS->counters[K_BASE_ANSWERS], XS->counters[K_SUBST], XS->counters[K_UNMATCHED_CHECKS], XS->counters[K_HS_OK], XS->counters[K_HS_FAIL], XS->counters[K_CLIENT_EXIT], XS->counters[K_TUNW], XS->counters[K_SAN]);
	xp_print_stats(extra);
	return 0;
}
