/* C09: downstream answers decode exactly (or to a prefix), monotonically in size.
 * E-C across the two images: the server image's real write_dns() produces the answer
 * (captured at sendto), the client image's real read_dns_withq() consumes it (fed through
 * recvfrom).  Every payload length 2..4096 x contents x type x downstream codec x name length. */
#include <setjmp.h>
#include "harness_common.h"
#include "vw.h"
#include "explore.h"
#include "images.h"
#include "refdns.h"

IMG_SERVER(s)
IMG_CLIENT(ca)

#define SRV_FD_DUMMY 11
enum { K_TRIPS, K_EXACT, K_PREFIX, K_NOTHING, K_WELLFORMED };
static int thorough;

static const int TYPES[7] = { 10, 65399, 16, 33, 15, 5, 1 };
static const char *TNAME[7] = { "NULL", "PRIVATE", "TXT", "SRV", "MX", "CNAME", "A" };
static const char CODECS[5] = { 'T', 'S', 'U', 'V', 'R' };

static unsigned char captured[70000]; static int caplen;
static int srv_sock, cli_sock;
static struct sockaddr_storage cli_addr; static socklen_t cli_addrlen;

static void on_send(int d)
{
	vw_dgram *g = &W.dg[d];
	caplen = g->len > (int)sizeof captured ? (int)sizeof captured : g->len;
	memcpy(captured, g->data, caplen);
	vw_dgram_free(d);
}

static const char *PROPN = "C09";      /* "C10": only the well-formedness of the server's answers is judged (part of the C10 check) */
static void viol(int t, int c, const char *what, const char *fmt, ...)
{
	char detail[300], sig[100];
	if (!strcmp(PROPN, "C10") && strcmp(what, "answer-malformed")) return;
	va_list ap; va_start(ap, fmt); vsnprintf(detail, sizeof detail, fmt, ap); va_end(ap);
	snprintf(sig, sizeof sig, "%s:%s:%c:%s", PROPN, TNAME[t], CODECS[c], what);
	xp_violation(sig, "%s", detail);
}

static void fill(unsigned char *p, int n, int content)
{
	switch (content) {
	case 0: memset(p, 0xFF, n); break;
	case 1: memset(p, 0x00, n); break;
	case 2: /* the server's fragsize probe pattern */
		p[0] = n >> 8; p[1] = n; if (n > 2) p[2] = 107;
		{ unsigned v = 0x5a; for (int i = 3; i < n; i++, v = (v + 107) & 0xff) p[i] = v; }
		break;
	case 3: for (int i = 0; i < n; i++) p[i] = i; break;
	default: { unsigned x = 2463534242u + n; for (int i = 0; i < n; i++) { x ^= x << 13; x ^= x >> 17; x ^= x << 5; p[i] = x; } }
	}
}

/* one round trip; returns 2 exact, 1 proper prefix, 0 nothing; -1 violation */
static int trip(int t, int c, const char *qname, const unsigned char *payload, int len, int cbuflen, int content)
{
	static struct query q;
	static char buf[70000];
	jmp_buf jb;
	memset(&q, 0, sizeof q);
	snprintf(q.name, sizeof q.name, "%s", qname);
	q.type = TYPES[t]; q.id = 0x4242;
	memcpy(&q.from, &cli_addr, cli_addrlen); q.fromlen = cli_addrlen;
	caplen = -1;
	if (setjmp(jb) == 0) {
		vw_direct_begin(0, &jb);
		s_w_write_dns(SRV_FD_DUMMY, &q, (const char *)payload, len, CODECS[c]);
		vw_direct_end();
	} else { vw_direct_end(); viol(t, c, "server-exit", "write_dns exited"); return -1; }
	xp_count(K_TRIPS, 1);
	if (caplen < 0) return 0;                /* server could not encode: nothing sent */
	/* the emitted answer must itself be well-formed (also feeds C10) */
	{
		static rd_msg m; char err[128];
		if (rd_parse(captured, caplen, &m, err)) viol(t, c, "answer-malformed", "len %d content %d name %zu chars: %s", len, content, strlen(qname), err);
		else xp_count(K_WELLFORMED, 1);
	}
	int d = vw_dgram_new(&W.sock[srv_sock].addr, W.sock[srv_sock].addrlen, &cli_addr, cli_addrlen, captured, caplen, -1);
	vw_deliver_now(d, cli_sock);
	struct query cq;
	memset(&cq, 0, sizeof cq);
	memset(buf, 0xA5, cbuflen);
	int r = -99;
	if (setjmp(jb) == 0) {
		vw_direct_begin(1, &jb);
		r = ca_w_read_dns_withq(21, 20, buf, cbuflen, &cq);
		vw_direct_end();
	} else { vw_direct_end(); viol(t, c, "client-exit", "read_dns_withq exited"); return -1; }
	if (r > len) { viol(t, c, "longer-than-payload", "payload %d bytes (content %d, name %zu chars), client extracted %d", len, content, strlen(qname), r); return -1; }
	if (r > 0 && memcmp(buf, payload, r)) {
		int k = 0; while (k < r && (unsigned char)buf[k] == payload[k]) k++;
		viol(t, c, "different-bytes", "payload %d bytes (content %d, name %zu chars): client extracted %d bytes, first difference at %d (got %02x want %02x)",
		     len, content, strlen(qname), r, k, (unsigned char)buf[k], payload[k]);
		return -1;
	}
	if (r == len) { xp_count(K_EXACT, 1); return 2; }
	if (r > 0) { xp_count(K_PREFIX, 1); return 1; }
	xp_count(K_NOTHING, 1);
	return 0;
}


/* job = ((t*5 + c)*2 + namekind) */
static void job(int j)
{
	int namekind = j & 1, c = (j >> 1) % 5, t = (j >> 1) / 5;
	char qname[300];
	if (namekind == 0) snprintf(qname, sizeof qname, "paaaa.t.co");
	else {
		/* 255 presentation chars would be 257 on the wire; the longest legal name has 253 chars */
		int n = 0;
		qname[n++] = 'p';
		while (n < 253 - 5) { if ((n % 58) == 57) qname[n++] = '.'; else qname[n++] = 'a' + (n % 26); }
		if (qname[n - 1] == '.') qname[n - 1] = 'z';
		strcpy(qname + n, ".t.co");
	}
	static unsigned char payload[4200];
	static unsigned char exact[5][4100];
	int maxexact[5] = { 0, 0, 0, 0, 0 };
	int ncontent = 5;
	for (int content = 0; content < ncontent; content++) {
		if (!thorough && content >= 3) break;
		for (int len = 2; len <= 4096; len++) {
			if (!thorough && len > 300 && (len % 16) && len < 4090 && !(len >= 1020 && len <= 1030) && !(len >= 2040 && len <= 2050)) continue;
			fill(payload, len, content);
			int r = trip(t, c, qname, payload, len, 65536, content);
			exact[content][len] = (r == 2);
			if (r == 2) maxexact[content] = len;
			xp_outcome(((uint64_t)j << 40) ^ ((uint64_t)content << 32) ^ ((uint64_t)(r + 1) << 28) ^ (r == 2 ? 0 : len));
		}
		/* monotone: exact at n => exact at every enumerated n' < n */
		int hole = -1;
		for (int len = 2; len <= 4096; len++) {
			if (!thorough && len > 300 && (len % 16) && len < 4090 && !(len >= 1020 && len <= 1030) && !(len >= 2040 && len <= 2050)) continue;
			if (!exact[content][len]) { if (hole < 0) hole = len; }
			else if (hole >= 0) {
				viol(t, c, "not-monotone", "content %d name %zu chars: length %d is delivered exactly but shorter length %d is not", content, strlen(qname), len, hole);
				break;
			}
		}
	}
	/* handshake-sized client buffer (4096) on the probe pattern.  During the handshake the
	 * server never sends more than 2047 payload bytes (fragment-size probes are capped there),
	 * so this buffer is only paired with lengths up to 2047. */
	for (int len = 2; len <= 2047; len += (len < 300 || len > 2030) ? 1 : 31) {
		fill(payload, len, 2);
		trip(t, c, qname, payload, len, 4096, 2);
	}
	xp_sample("%s/%c name %zu chars: lengths 2..4096, largest exactly delivered per content: ff=%d 00=%d probe=%d", TNAME[t], CODECS[c], strlen(qname), maxexact[0], maxexact[1], maxexact[2]);
}

static void on_san(const char *sig) { (void)sig; xp_count(8, 1); }

int main(int argc, char **argv)
{
	hc_args a = hc_parse(argc, argv, "C09");
	thorough = a.thorough;
	vw_init();
	W.hooks.on_send = on_send;
	W.hooks.on_sanitizer = on_san;
	srv_sock = vw_sock_open(0, 11, "192.0.2.1", 53);
	cli_sock = vw_sock_open(1, 21, "198.51.100.7", 40000);
	memcpy(&cli_addr, &W.sock[cli_sock].addr, sizeof cli_addr); cli_addrlen = W.sock[cli_sock].addrlen;
	{
		/* client statics as client_init() leaves them (conn = DNS mode) */
		struct w_client_cfg c; memset(&c, 0, sizeof c);
		vw_mkaddr(&c.nameserv, NULL, "192.0.2.1", 53); c.nameserv_len = sizeof(struct sockaddr_in);
		c.topdomain = "t.co"; c.password = "x"; c.qtype = ""; c.downenc = ""; c.selecttimeout = 4; c.lazymode = 1; c.hostname_maxlen = 255;
		jmp_buf jb;
		if (setjmp(jb) == 0) { vw_direct_begin(1, &jb); ca_w_setup(&c); vw_direct_end(); }
	}
	for (int i = 0; i < a.nextra; i++) if (!strcmp(a.extra[i], "--prop") && i + 1 < a.nextra) PROPN = a.extra[++i];
	xp_init(PROPN, a.tier, 1024, a.budget_s);
	xp_guard("!C09", NULL, 0);
	if (a.replay) { job(xp_load_replay(a.replay)); return 0; }
	hc_quiet();
	xp_run_jobs(70, job, a.workers);
	char extra[300];
	snprintf(extra, sizeof extra, "\"round_trips\":%ld,\"exact\":%ld,\"prefix\":%ld,\"nothing\":%ld,\"answers_wellformed\":%ld,\"sanitizer_notes_for_C05_C06\":%ld",
		 XS->counters[K_TRIPS], XS->counters[K_EXACT], XS->counters[K_PREFIX], XS->counters[K_NOTHING], XS->counters[K_WELLFORMED], XS->counters[8]);
	xp_print_stats(extra);
	return 0;
}
