/* C12: a datagram is interpreted from its own bytes only (no stale-buffer over-read).
 * Differential E-B: from one snapshotted pre-state the same datagram (same bytes, length,
 * sender) is delivered several times, each time with a different RESIDUE written by the
 * receive stub into the caller's 64 KB buffer beyond the datagram's length (what earlier,
 * longer datagrams would have left there).  Everything observable - datagrams emitted, tun
 * writes, process exit, and the post-state of the image and of users[] - must be identical
 * for all residues.  Server side: real server loop (with -b).  Client side: real client
 * after a real handshake against the real server, then fed crafted answers.
 * ./C12 --tier quick|thorough                                        DESIGN.md 2, C12 */
#include <ctype.h>
#include <stddef.h>
#include <setjmp.h>
#include "harness_common.h"
#include "netsim.h"
#include "refmd5.h"
#include "tmsg.h"
#include "srvstate.h"

static int thorough;
enum { K_SHAPES, K_DELIVERIES, K_SRV_SHAPES, K_CLI_SHAPES, K_REACTIONS, K_ACCEPTED, K_NAMECHK, K_AFTER_REJECTED, K_SAN = 20 };
static const char *DOM = "t.example.com";

static void viol(const char *what, const char *fmt, ...)
{
	char detail[380], sig[120];
	va_list ap; va_start(ap, fmt); vsnprintf(detail, sizeof detail, fmt, ap); va_end(ap);
	snprintf(sig, sizeof sig, "C12:%s", what);
	xp_violation(sig, "%s", detail);
}
static void on_san(const char *sig) { (void)sig; xp_count(K_SAN, 1); }

/* ---------------------------------------------------------------- residues */
#define NRES 7
static const char *RESN[NRES] = { "zeros", "0xff", "tail-of-original", "labels-of-a-tunnel-request", "same-shifted-by-one", "other-client's-datagram", "compression-pointers" };
static int cur_res; static const unsigned char *res_tail; static int res_taillen;
static unsigned char other_dgram[600]; static int other_len;
static unsigned char crafted[400]; static int crafted_len;

static void mk_crafted(void)
{
	/* labels that complete any name into a valid tunnel request of another session, then type/class, then a
	 * plausible answer record: "zabcd" "t" "example" "com" 0  NULL IN | c00c NULL IN ttl rdlen=6 "STOLEN" */
	static const unsigned char c[] = { 5, 'z', 'a', 'b', 'c', 'd', 1, 't', 7, 'e', 'x', 'a', 'm', 'p', 'l', 'e', 3, 'c', 'o', 'm', 0, 0, 10, 0, 1,
		0xc0, 0x0c, 0, 10, 0, 1, 0, 0, 0, 0, 0, 6, 'S', 'T', 'O', 'L', 'E', 'N' };
	for (int k = 0; k + (int)sizeof c <= (int)sizeof crafted; k += sizeof c) { memcpy(crafted + k, c, sizeof c); crafted_len = k + sizeof c; }
}

static void residue(int proc, unsigned char *buf, size_t buflen, int dlen)
{
	(void)proc; (void)dlen;
	size_t n = buflen > 1200 ? 1200 : buflen;      /* decoders look at most a few hundred bytes past the end */
	switch (cur_res) {
	case 0: memset(buf, 0, n); break;
	case 1: memset(buf, 0xff, n); break;
	case 2: memset(buf, 0, n); if (res_tail && res_taillen > 0) memcpy(buf, res_tail, (size_t)res_taillen < n ? (size_t)res_taillen : n); break;
	case 3: memset(buf, 0, n); memcpy(buf, crafted, (size_t)crafted_len < n ? (size_t)crafted_len : n); break;
	case 4: memset(buf, 0, n); buf[0] = 3; memcpy(buf + 1, crafted, (size_t)crafted_len < n - 1 ? (size_t)crafted_len : n - 1); break;
	case 5: memset(buf, 0, n); { int skip = dlen < other_len ? dlen : other_len; memcpy(buf, other_dgram + skip, other_len - skip); } break;
	case 6: for (size_t i = 0; i + 1 < n; i += 2) { buf[i] = 0xc0; buf[i + 1] = 0x0c; } break;
	}
}

/* ---------------------------------------------------------------- outcome of one delivery */
typedef struct outcome { int nout; int alive0, alive1; uint64_t out[2], post[2]; char first[160]; } outcome;
static h128 OH; static int nout; static char firstout[160];

/* the DNS messages emitted during one delivery, kept for the absolute check in run_shapes() */
static struct { int len; unsigned char d[700]; } OUTS[6]; static int nouts_kept;
static h128 TWH; static int ntunw;          /* tun writes of the current delivery only (content, in order) */
static unsigned char HON[2][4200]; static int honlen;    /* client cells: the honest data answer to the client's outstanding query, as a whole packet [0] and as a first fragment with more to come [1] */
static void note_out(int kind, const struct sockaddr_storage *dst, const unsigned char *data, int len)
{
	if (kind >= 3 && kind != 0) { h128_update(&TWH, &len, sizeof len); h128_update(&TWH, data, len); ntunw++; }
	h128_update(&OH, &kind, sizeof kind);
	if (dst) { const char *a = vw_addr_str(dst); h128_update(&OH, a, strlen(a)); }
	h128_update(&OH, &len, sizeof len); h128_update(&OH, data, len);
	if (kind == 0 && nouts_kept < 6 && len <= 700) { OUTS[nouts_kept].len = len; memcpy(OUTS[nouts_kept].d, data, len); nouts_kept++; }
	if (nout == 0) {
		int o = snprintf(firstout, sizeof firstout, "%s %dB to %s:", kind == 3 ? "tun write" : "datagram", len, dst ? vw_addr_str(dst) : "-");
		for (int i = 0; i < len && i < 24 && o < 150; i++) o += snprintf(firstout + o, sizeof firstout - o, " %02x", data[i]);
	}
	nout++;
}
static void cap_send(int d) { vw_dgram *g = &W.dg[d]; note_out(0, &g->dst, g->data, g->len); vw_dgram_free(d); }
static void cap_tunw(int proc, const unsigned char *data, int len) { note_out(3 + proc * 16, NULL, data, len); }

/* The forwarding ring (static in fw_query.c) is filled by memcpy from a stack struct whose padding bytes are whatever
 * the stack held - bytes no code ever reads.  It is located once with a sentinel and hashed field by field; the rest of
 * the server image's bss and data are hashed raw. */
static char *fwq_base;
static void locate_fwq(void)
{
	struct fw_query f; memset(&f, 0, sizeof f);
	s_fw_query_init();
	memset(&f.addr, 0xA7, sizeof f.addr); f.addrlen = 0x5A5A5A5A; f.id = 0xBEEF;
	s_fw_query_put(&f);
	fwq_base = NULL;
	for (char *p = __start_sbss; p + sizeof f <= __stop_sbss; p++) if (!memcmp(p, &f, offsetof(struct fw_query, id) + 2)) { fwq_base = p; break; }
	if (!fwq_base) vw_fatal("forwarding ring not found in the server image");
	s_fw_query_init();
}

static void post_state(uint64_t k[2], int with_users)
{
	uint64_t w[2]; h128 h;
	h128_init(&h);
	if (with_users && fwq_base) {
		vw_hash_world(w, VW_HASH_COARSE_TIME | 4);
		h128_update(&h, w, sizeof w);
		h128_update(&h, __start_sdata, __stop_sdata - __start_sdata);
		h128_update(&h, __start_sbss, fwq_base - __start_sbss);
		for (int i = 0; i < FW_QUERY_CACHE_SIZE; i++) {
			struct fw_query *f = (struct fw_query *)fwq_base + i;
			ss_hash_addr(&h, &f->addr, f->addrlen); h128_update(&h, &f->addrlen, sizeof f->addrlen); h128_update(&h, &f->id, sizeof f->id);
		}
		char *after = fwq_base + sizeof(struct fw_query) * FW_QUERY_CACHE_SIZE;
		h128_update(&h, after, __stop_sbss - after);
	} else {
		vw_hash_world(w, VW_HASH_COARSE_TIME);
		h128_update(&h, w, sizeof w);
	}
	if (with_users) ss_hash_users(&h, s_w_users(), s_w_created_users());
	h128_final(&h, k);
}

/* ---------------------------------------------------------------- shape tables */
typedef struct shape { unsigned char d[4700]; int len; unsigned char tail[4700]; int taillen; int from; char desc[100]; } shape;
static shape *SH; static int nsh, shcap;
static int cur_prestate;
static void add_shape(const unsigned char *d, int len, const unsigned char *tail, int taillen, int from, const char *fmt, ...)
{
	if (nsh == shcap) { shcap = shcap ? shcap * 2 : 4096; SH = realloc(SH, sizeof *SH * shcap); }
	shape *s = &SH[nsh++];
	memset(s, 0, sizeof *s);
	if (len > 4700) len = 4700;
	memcpy(s->d, d, len); s->len = len; s->from = from;
	if (tail && taillen > 0) { s->taillen = taillen > 4700 ? 4700 : taillen; memcpy(s->tail, tail, s->taillen); }
	va_list ap; va_start(ap, fmt); vsnprintf(s->desc, sizeof s->desc, fmt, ap); va_end(ap);
}

/* every truncation of a seed, plus structural variants around the end of the message */
static void shapes_from_seed(const unsigned char *m, int len, int from, const char *name, int step)
{
	for (int k = 0; k < len; k += (k < 40 || k > len - 24) ? 1 : step) add_shape(m, k, m + k, len - k, from, "%s truncated to %d of %d bytes", name, k, len);
	add_shape(m, len, NULL, 0, from, "%s complete (%d bytes)", name, len);
}

static void pointer_shapes(int id, int qr, int from, int qtype)
{
	unsigned char p[64];
	for (int variant = 0; variant < 3; variant++)
		for (int delta = -6; delta <= 2; delta++) {
			int n = 0;
			memset(p, 0, sizeof p);
			p[0] = id >> 8; p[1] = id; p[2] = qr ? 0x84 : 0x01; p[5] = 1; if (qr) p[7] = 1;
			n = 12;
			if (variant == 1) { p[n++] = 1; p[n++] = 'z'; }                       /* one label, then the pointer */
			if (variant == 2) { p[n++] = 2; p[n++] = 'p'; p[n++] = 'a'; }
			int ptrpos = n; n += 2;
			p[n++] = qtype >> 8; p[n++] = qtype; p[n++] = 0; p[n++] = 1;
			int target = n + delta;
			if (target < 0) continue;
			p[ptrpos] = 0xc0 | (target >> 8); p[ptrpos + 1] = target;
			add_shape(p, n, NULL, 0, from, "%s, name = %s pointer to offset %d of a %d-byte message", qr ? "answer" : "query", variant == 0 ? "" : variant == 1 ? "label 'z' +" : "label 'pa' +", target, n);
		}
	/* the pointer leads to a length byte that is the very last byte of the datagram: every class of length byte */
	{
		static const int LB[] = { 0x01, 0x05, 0x3f, 0x40, 0x7f, 0x80, 0x9f, 0xbf };
		for (unsigned l = 0; l < sizeof LB / sizeof LB[0]; l++) for (int variant = 0; variant < 2; variant++) for (int extra = 0; extra < 2; extra++) {
			int n = 12;
			memset(p, 0, sizeof p);
			p[0] = id >> 8; p[1] = id; p[2] = qr ? 0x84 : 0x01; p[5] = 1;
			if (variant) { p[n++] = 1; p[n++] = 'x'; }
			int ptrpos = n; n += 2;
			p[n++] = qtype >> 8; p[n++] = qtype; p[n++] = 0; p[n++] = 1;
			if (extra) p[n++] = 'q';                       /* one label byte present, the rest missing */
			int target = n - extra;
			p[target] = LB[l]; if (!extra) n++;
			p[ptrpos] = 0xc0 | (target >> 8); p[ptrpos + 1] = target;
			add_shape(p, n, NULL, 0, from, "%s, name = %spointer to a length byte 0x%02x %s the end of the %d-byte message", qr ? "answer" : "query", variant ? "label 'x' + " : "", LB[l], extra ? "one byte before" : "at", n);
		}
	}
	/* half a compression pointer as the very last byte of the datagram, in a name that is reached through a pointer (so that no
	 * length check on the position follows): its second byte would come from the receive buffer.  The datagram is laid out so that
	 * a zero byte there completes the pointer to offset 256, where labels spelling the tunnel domain wait (seeded C12-j) */
	if (!qr) for (int lone = 0xc1; lone <= 0xc1; lone++) {
		static unsigned char big[400];
		memset(big, 0, sizeof big);
		big[0] = id >> 8; big[1] = id; big[2] = 0x01; big[5] = 1;
		int n = 12, ptrpos = n; n += 2;
		big[n++] = qtype >> 8; big[n++] = qtype; big[n++] = 0; big[n++] = 1;
		while (n < 256) big[n++] = 0x2e;
		{ uint8_t w[100]; int wl = rd_dotted_to_wire(DOM, (int)strlen(DOM), w, sizeof w); memcpy(big + n, w, wl); n += wl; }
		int target = n;
		big[n++] = 5; memcpy(big + n, "zabcd", 5); n += 5;
		big[n++] = lone;
		big[ptrpos] = 0xc0 | (target >> 8); big[ptrpos + 1] = target;
		add_shape(big, n, NULL, 0, from, "query, name = pointer to 'zabcd' + the first half (0x%02x) of a pointer as the last byte of the %d-byte message", lone, n);
	}
	/* last label reaching exactly to / one past / far past the end */
	for (int over = 0; over <= 3; over++) {
		int n = 12;
		memset(p, 0, sizeof p);
		p[0] = id >> 8; p[1] = id; p[2] = qr ? 0x84 : 0x01; p[5] = 1;
		p[n++] = 1; p[n++] = 'z';
		int lab = 4 + (over == 0 ? 0 : over == 1 ? 1 : over == 2 ? 20 : 59);
		p[n++] = lab; for (int i = 0; i < 4; i++) p[n++] = 'a' + i;
		add_shape(p, n, NULL, 0, from, "%s whose last label (length byte %d) %s", qr ? "answer" : "query", lab, over == 0 ? "ends exactly at the end of the message, no root/type/class" : "runs past the end of the message");
	}
	for (int hl = 0; hl <= 12; hl++) { memset(p, 0, 12); p[0] = id >> 8; p[1] = id; p[2] = qr ? 0x84 : 0x01; p[5] = 1; if (qr) p[7] = 1; add_shape(p, hl, NULL, 0, from, "%d-byte header only", hl); }
}

/* ================================================================ server side */
static struct sockaddr_storage A_ADDR, B_ADDR, X_ADDR, LOCALDNS; static socklen_t ALEN;
static unsigned char pw32[33];
static uint32_t seedA, seedB;

static void srv_deliver(const struct sockaddr_storage *src, const unsigned char *d, int len)
{
	int di = vw_dgram_new(src, ALEN, &ns_srv_addr, ALEN, d, len, -1);
	vw_deliver_now(di, ns_srv_sock);
	vw_run_quiescent(0);
	if (vw_alive(0) && W.proc[0].deadline != VW_NEVER && W.proc[0].deadline - W.now <= 20000) { vw_run_until(W.proc[0].deadline); vw_run_quiescent(0); }
}

static int srv_payload(unsigned char *pl, int max)
{
	/* last captured output is in lastout */
	(void)pl; (void)max; return 0;
}

static unsigned char lastout[9000]; static int lastoutlen;
static void cap_send_keep(int d) { vw_dgram *g = &W.dg[d]; lastoutlen = g->len > (int)sizeof lastout ? (int)sizeof lastout : g->len; memcpy(lastout, g->data, lastoutlen); note_out(0, &g->dst, g->data, g->len); vw_dgram_free(d); }

static struct tun_user *pristine;
static int snap_regions_srv(vw_region *out, int max, char *note)
{
	struct tun_user *us = s_w_users(); int n = 0; unsigned mask = 0;
	for (int i = 0; i < s_w_created_users() && n < max; i++) if (us[i].active) { out[n].p = &us[i]; out[n].n = sizeof us[i]; n++; mask |= 1u << i; }
	memcpy(note, &mask, sizeof mask);
	return n;
}
static void snap_restored_srv(const char *note)
{
	struct tun_user *us = s_w_users(); unsigned mask; memcpy(&mask, note, sizeof mask);
	for (int i = 0; i < s_w_created_users(); i++) if (us[i].active && !(mask & (1u << i))) memcpy(&us[i], &pristine[i], sizeof us[i]);
}

static void srv_main(void *arg)
{
	(void)arg;
	struct w_server_cfg c = { .topdomain = DOM, .password = "sesame", .my_ip = "10.0.0.1", .netmask = 29, .mtu = 1130, .check_ip = 1, .bind_port = 5353, .srand_seed = 7 };
	s_w_tun_set_ifname("dns0");
	s_w_init(&c);
	s_w_run(NS_SRV_TUN, NS_SRV_FD, -1, 13);
}

static uint32_t do_login(const struct sockaddr_storage *src, int expect_slot)
{
	unsigned char pkt[700]; static rd_msg m; const uint8_t *pl;
	int n = tm_version(pkt, 0x700 + expect_slot, 10, 0x00000502, 0x55 + expect_slot, DOM);
	lastoutlen = 0; srv_deliver(src, pkt, n);
	int k = tm_null_payload(lastout, lastoutlen, &pl, &m);
	if (k < 9 || memcmp(pl, "VACK", 4) || pl[8] != expect_slot) vw_fatal("C12 server boot: no VACK for slot %d", expect_slot);
	uint32_t seed = (pl[4] << 24) | (pl[5] << 16) | (pl[6] << 8) | pl[7];
	unsigned char h[16]; ref_login(pw32, seed, h);
	n = tm_login(pkt, 0x710 + expect_slot, 10, expect_slot, h, 16, 0x66, DOM);
	lastoutlen = 0; srv_deliver(src, pkt, n);
	if (!s_w_users()[expect_slot].authenticated) vw_fatal("C12 server boot: login of slot %d failed", expect_slot);
	n = tm_short(pkt, 0x720 + expect_slot, 10, 'o', tm_5to8(expect_slot), 'l', 0x77, DOM);
	srv_deliver(src, pkt, n);
	return seed;
}

static void srv_boot(int prestate)
{
	vw_init();
	IMG_REGISTER(s);
	W.hooks.on_sanitizer = on_san;
	W.hooks.on_send = cap_send_keep; W.hooks.on_tun_write = cap_tunw;
	W.hooks.recv_residue = residue;
	W.hooks.snap_regions = snap_regions_srv; W.hooks.snap_restored = snap_restored_srv;
	vw_mkaddr(&ns_srv_addr, &ALEN, "192.0.2.1", 53);
	ns_srv_sock = vw_sock_open(0, NS_SRV_FD, "192.0.2.1", 53);
	vw_sock_open(0, 13, "127.0.0.1", 45000);
	ns_srv_tun = vw_tun_open(0, NS_SRV_TUN);
	cur_res = 0; res_tail = NULL;
	h128_init(&OH); nout = 0;
	vw_spawn(0, srv_main, NULL);
	vw_run_quiescent(0);
	locate_fwq();
	if (!pristine) pristine = malloc(sizeof *pristine * s_w_created_users());
	memcpy(pristine, s_w_users(), sizeof *pristine * s_w_created_users());
	if (prestate >= 1) {
		unsigned char pkt[700];
		seedA = do_login(&A_ADDR, 0);
		seedB = do_login(&B_ADDR, 1);
		/* both sessions hold a ping; B's ping is "the previous datagram of another client" */
		int n = tm_ping(pkt, 0x801, 10, 0, 0, 0, 0x1234, DOM); srv_deliver(&A_ADDR, pkt, n);
		other_len = tm_ping(other_dgram, 0x802, 10, 1, 0, 0, 0x2345, DOM); srv_deliver(&B_ADDR, other_dgram, other_len);
		if (prestate == 2) {
			/* A in the middle of an upstream packet */
			unsigned char ip[100], z[200];
			int l = tm_ippkt(ip, 40, 0x0A000002, 0xC0A80101u, 5), zl = tm_compress(ip, l, z, sizeof z);
			n = tm_data(pkt, 0x803, 10, 0, 1, 0, 0, 0, 0, 'a', REF_B32, z, zl / 2, DOM); srv_deliver(&A_ADDR, pkt, n);
		}
		if (prestate == 3) {
			/* both sessions in raw mode: raw data frames are now accepted (to the tun, or relayed to the other session) */
			unsigned char h[16];
			ref_login(pw32, seedA + 1, h); n = tm_raw(pkt, 0x10, 0, h, 16); srv_deliver(&A_ADDR, pkt, n);
			ref_login(pw32, seedB + 1, h); n = tm_raw(pkt, 0x10, 1, h, 16); srv_deliver(&B_ADDR, pkt, n);
			if (!s_w_users()[0].authenticated_raw || !s_w_users()[1].authenticated_raw) vw_fatal("raw logins of the pre-state not accepted");
		}
	} else {
		other_len = tm_ping(other_dgram, 0x802, 10, 1, 0, 0, 0x2345, DOM);
	}
}

static void srv_shapes(int prestate)
{
	unsigned char pkt[800]; int n;
	nsh = 0;
	cur_prestate = prestate;
	int step = thorough ? 1 : 3;
	{ char s[] = "zabcAbC09-xyzzy"; n = tm_query(pkt, sizeof pkt, 0x901, 10, s, (int)strlen(s), DOM, 0); shapes_from_seed(pkt, n, 2, "echo request (z)", step); }
	n = tm_version(pkt, 0x902, 10, 0x00000502, 0x99, DOM); shapes_from_seed(pkt, n, 2, "version request", step);
	{ uint8_t wire[100]; int wl = rd_dotted_to_wire(DOM, (int)strlen(DOM), wire, sizeof wire); n = rd_mkquery(pkt, sizeof pkt, 0x903, wire, wl, 2, 1); shapes_from_seed(pkt, n, 2, "NS query with EDNS0", step); }
	{ uint8_t wire[100]; const char *nm = "ns.t.example.com"; int wl = rd_dotted_to_wire(nm, (int)strlen(nm), wire, sizeof wire); n = rd_mkquery(pkt, sizeof pkt, 0x904, wire, wl, 1, 0); shapes_from_seed(pkt, n, 2, "A query for ns.<domain>", step); }
	{ uint8_t wire[100]; const char *nm = "www.elsewhere.org"; int wl = rd_dotted_to_wire(nm, (int)strlen(nm), wire, sizeof wire); n = rd_mkquery(pkt, sizeof pkt, 0x905, wire, wl, 1, 0); shapes_from_seed(pkt, n, 2, "query outside the tunnel domain (forwarded)", step); }
	if (prestate >= 1) {
		unsigned char ip[100], z[200], h[16];
		n = tm_ping(pkt, 0x906, 10, 0, 0, 0, 0x4321, DOM); shapes_from_seed(pkt, n, 0, "ping of session A", step);
		n = tm_ping(pkt, 0x907, 16, 0, 0, 0, 0x4322, DOM); shapes_from_seed(pkt, n, 0, "ping of session A (TXT)", step * 2);
		int l = tm_ippkt(ip, 40, 0x0A000002, 0xC0A80101u, 6), zl = tm_compress(ip, l, z, sizeof z);
		if (prestate == 2) n = tm_data(pkt, 0x908, 10, 0, 1, 1, 0, 0, 1, 'b', REF_B32, z + zl / 2, zl - zl / 2, DOM);
		else n = tm_data(pkt, 0x908, 10, 0, 1, 0, 0, 0, 1, 'b', REF_B32, z, zl, DOM);
		shapes_from_seed(pkt, n, 0, "upstream data fragment of session A", step);
		n = tm_setfrag(pkt, 0x909, 10, 0, 300, 0x88, DOM); shapes_from_seed(pkt, n, 0, "fragment-size request of session A", step);
		ref_login(pw32, seedA + 1, h); n = tm_raw(pkt, 0x10, 0, h, 16); shapes_from_seed(pkt, n, 0, "raw login of session A", 1);
		n = tm_raw(pkt, 0x30, 0, NULL, 0); shapes_from_seed(pkt, n, 0, "raw ping", 1);
		n = tm_raw(pkt, 0x20, 0, z, zl); shapes_from_seed(pkt, n, 0, "raw data", prestate == 3 ? 1 : step);
		if (prestate == 3) {
			/* a frame for the other session's tunnel address (relayed, not written to the tun), and one for user 1 sent by A */
			l = tm_ippkt(ip, 40, 0x0A000002, 0x0A000003, 7); zl = tm_compress(ip, l, z, sizeof z);
			n = tm_raw(pkt, 0x20, 0, z, zl); shapes_from_seed(pkt, n, 0, "raw data for the other session", 1);
			n = tm_raw(pkt, 0x20, 1, z, zl); shapes_from_seed(pkt, n, 0, "raw data naming the other session's user id", 2);
			/* inner IPv4 header whose total-length field claims 400 / 65535 bytes while 40 are there */
			for (int claim = 0; claim < 2; claim++) {
				l = tm_ippkt(ip, 40, 0x0A000002, 0xC0A80101u, 8 + claim); ip[4 + 2] = claim ? 0xff : 400 >> 8; ip[4 + 3] = claim ? 0xff : 400 & 0xff;
				zl = tm_compress(ip, l, z, sizeof z);
				n = tm_raw(pkt, 0x20, 0, z, zl); add_shape(pkt, n, NULL, 0, 0, "raw data whose inner length field claims %d bytes (40 present)", claim ? 65535 : 400);
			}
		}
		pointer_shapes(0x90a, 0, 0, 10);
	}
	pointer_shapes(0x90b, 0, 2, 10);
	pointer_shapes(0x90c, 0, 2, 2);
	pointer_shapes(0x90d, 1, 2, 10);
}

/* histories (server side): what an earlier datagram of somebody else left behind in the decoder's own variables is residue
 * just like the bytes behind the datagram in the receive buffer.  The earlier datagram is a stateless echo request ('z'), so
 * the state before the datagram under test is the same with and without it. */
#define NHIST 6
static const char *HISTN[NHIST] = { "after-an-echo-request-of-a-third-party", "after-another-echo-request-(TXT)", "after-a-maximum-length-echo-request",
	/* ... and two that the server decodes and then drops without an answer (record type AAAA): nothing it calls afterwards scrubs the stack */
	"after-an-unanswered-AAAA-query-for-an-echo-name", "after-an-unanswered-AAAA-query-for-a-version-request-name",
	/* ... and a longer upstream packet of the *other* session (raw mode pre-state): its plaintext stays in the server's inflate buffer.
	 * A later packet whose inner length field claims more than it carries must not be completed from it (seeded C12-i) */
	"after-a-longer-raw-data-frame-of-the-other-session" };
static void srv_deliver(const struct sockaddr_storage *src, const unsigned char *d, int len);
static void deliver_history(int h)
{
	unsigned char pkt[800]; int n;
	static struct sockaddr_storage y; static socklen_t yl;
	if (!yl) vw_mkaddr(&y, &yl, "203.0.113.77", 7777);
	char nm[260]; int l = 0;
	if (h == 0) l = snprintf(nm, sizeof nm, "zqrs-private-words-of-a-third-party-0123456789");
	else if (h == 1) l = snprintf(nm, sizeof nm, "Zanother-history-ABCDEFGH");
	else { nm[0] = 'z'; for (l = 1; l < 200; l++) nm[l] = "abcdefghijklmnopqrstuvwxyz012345"[(l * 7) & 31]; }
	if (h == 3) l = snprintf(nm, sizeof nm, "zwhat-the-third-party-asked-before");
	if (h == 5) {
		if (cur_prestate != 3) h = 0;            /* no raw-mode session to send it: an echo request instead */
		else {
			static unsigned char ip[400], z[500];
			int ln = tm_ippkt(ip, 300, 0x0A000003, 0xC0A80101u, 99), zl = tm_compress(ip, ln, z, sizeof z);
			n = tm_raw(pkt, 0x20, 1, z, zl);
			if (n < 0) vw_fatal("history datagram");
			srv_deliver(&B_ADDR, pkt, n);
			return;
		}
		l = snprintf(nm, sizeof nm, "zqrs-private-words-of-a-third-party-0123456789");
	}
	if (h == 4) { n = tm_version(pkt, 0x7704, 28, 0x00000502, 0x4141, DOM); if (n < 0) vw_fatal("history datagram"); srv_deliver(&y, pkt, n); return; }
	n = tm_query(pkt, sizeof pkt, 0x7700 + h, h == 1 ? 16 : h == 3 ? 28 : 10, nm, l, DOM, 0);
	if (n < 0) vw_fatal("history datagram %d cannot be built", h);
	srv_deliver(&y, pkt, n);
}

/* Absolute check (server side): the question name of whatever DNS message the server emits in reaction to a datagram - an
 * answer, or the copy it forwards - is spelled by that datagram's own bytes.  A lenient walk over the datagram (labels as far
 * as they are present, pointers to any offset inside it, 20 hops) gives the longest name its bytes can spell; the emitted
 * name must be a prefix of it.  A name the datagram does not contain (left over from an earlier datagram, or from the stack)
 * fails however the residues behind the datagram are filled.  Only messages bearing the datagram's own DNS id are looked at (a
 * query may release the answer to an older, held one). */
static int walk_name(const unsigned char *d, int len, char *out, int max)
{
	int off = 12, n = 0, hops = 0;
	while (off < len) {
		int c = d[off];
		if ((c & 0xc0) == 0xc0) { if (off + 1 >= len) break; int t = ((c & 0x3f) << 8) | d[off + 1]; if (t >= len || ++hops > 20) break; off = t; continue; }
		if (c == 0 || c > 63) break;
		off++;
		int avail = len - off, l = c < avail ? c : avail;
		if (n && n < max - 1) out[n++] = '.';
		for (int i = 0; i < l && n < max - 1; i++) out[n++] = (char)tolower(d[off + i]);
		if (l < c) break;
		off += c;
	}
	out[n] = 0;
	return n;
}
static void check_names_from_own_bytes(const shape *sh, const char *where, const char *resname)
{
	char w[1400]; walk_name(sh->d, sh->len, w, sizeof w);
	for (int i = 0; i < nouts_kept; i++) {
		static rd_msg m; char err[128], o[300];
		if (OUTS[i].len >= 3 && OUTS[i].d[0] == 0x10 && OUTS[i].d[1] == 0xd1 && OUTS[i].d[2] == 0x9e) continue;
		if (rd_parse(OUTS[i].d, OUTS[i].len, &m, err) || m.qnamelen <= 1) continue;
		if (OUTS[i].d[0] != sh->d[0] || OUTS[i].d[1] != sh->d[1]) continue;      /* another query's answer (a held one released by this datagram) */
		rd_name_to_dotted(m.qname, m.qnamelen, o, sizeof o);
		size_t ol = strlen(o); if (ol && o[ol - 1] == '.') o[--ol] = 0;
		for (size_t k = 0; k < ol; k++) o[k] = (char)tolower((unsigned char)o[k]);
		xp_count(K_NAMECHK, 1);
		if (strncmp(o, w, ol)) viol("server-reaction-names-what-the-datagram-does-not-contain", "%s, %s (%s): the server emitted a DNS message about '%.80s' but the datagram's own bytes spell '%.80s'", where, sh->desc, resname, o, w);
	}
}

/* the client's downstream reassembly state goes into the same hash as its tun writes */
static void reasm_hash(h128 *h)
{
	struct packet *ip = ca_w_inpkt();
	int v[3] = { ip->seqno, ip->fragment, ip->len };
	h128_update(h, v, sizeof v);
	int n = ip->len; if (n < 0) n = 0; if (n > (int)sizeof ip->data) n = sizeof ip->data;
	h128_update(h, ip->data, n);
}

static void run_shapes(int is_client, const char *where, void (*deliver)(const shape *))
{
	int nres = NRES + (is_client ? 0 : NHIST);
	vw_snap *snap = vw_snapshot();
	int have_hon_ref = 0, hon_ref_n[2] = { 0, 0 }; uint64_t hon_ref_h[2][2] = { { 0, 0 }, { 0, 0 } };
	if (is_client && honlen > 0) for (int v = 0; v < 2; v++) {
		shape hs; memset(&hs, 0, sizeof hs); memcpy(hs.d, HON[v], honlen); hs.len = honlen;
		cur_res = 0; res_tail = NULL; res_taillen = 0;
		h128_init(&OH); nout = 0; h128_init(&TWH); ntunw = 0;
		deliver(&hs);
		hon_ref_n[v] = ntunw; reasm_hash(&TWH); h128_final(&TWH, hon_ref_h[v]);
		if (v == 0) have_hon_ref = hon_ref_n[0] > 0;
		vw_restore(snap);
	}
	for (int i = 0; i < nsh; i++) {
		shape *sh = &SH[i];
		outcome ref; memset(&ref, 0, sizeof ref);
		int reacted = 0;
		xp_count(K_SHAPES, 1); xp_count(is_client ? K_CLI_SHAPES : K_SRV_SHAPES, 1);
		for (int r = 0; r < nres; r++) {
			outcome o; memset(&o, 0, sizeof o);
			cur_res = r < NRES ? r : 0; res_tail = sh->tail; res_taillen = sh->taillen;
			if (r >= NRES) { deliver_history(r - NRES); if (!vw_alive(0)) vw_fatal("server gone after an echo request"); }
			h128_init(&OH); nout = 0; firstout[0] = 0; nouts_kept = 0;
			deliver(sh);
			if (!is_client && sh->len >= 12) check_names_from_own_bytes(sh, where, r < NRES ? RESN[r] : HISTN[r - NRES]);
			xp_count(K_DELIVERIES, 1);
			o.nout = nout; o.alive0 = vw_alive(0); o.alive1 = is_client ? vw_alive(1) : 0;
			h128_final(&OH, o.out);
			post_state(o.post, !is_client);
			snprintf(o.first, sizeof o.first, "%s", firstout);
			if (getenv("C12_DEBUG") && strstr(sh->desc, getenv("C12_DEBUG"))) dprintf(2, "%s | %s | %s: %d outputs (%s) post %016llx\n", where, sh->desc, r < NRES ? RESN[r] : HISTN[r - NRES], o.nout, o.first, (unsigned long long)o.post[0]);
			if (r == 0) { ref = o; reacted = nout > 0; }
			else if (o.nout != ref.nout || memcmp(o.out, ref.out, sizeof o.out) || o.alive0 != ref.alive0 || o.alive1 != ref.alive1 || memcmp(o.post, ref.post, sizeof o.post)) {
				const char *what = (o.nout != ref.nout || memcmp(o.out, ref.out, sizeof o.out)) ? "reaction-depends-on-stale-buffer" : (o.alive0 != ref.alive0 || o.alive1 != ref.alive1) ? "exit-depends-on-stale-buffer" : "state-depends-on-stale-buffer";
				char sig[100]; snprintf(sig, sizeof sig, "%s-%s", is_client ? "client" : "server", what);
				if (r >= NRES) snprintf(sig, sizeof sig, "server-%s", what[0] == 'r' ? "reaction-depends-on-earlier-datagram" : what[0] == 'e' ? "exit-depends-on-earlier-datagram" : "state-depends-on-earlier-datagram");
				viol(sig, "%s, %s: with %s after the datagram: %d outputs (%s); %s %s: %d outputs (%s)%s", where, sh->desc, RESN[0], ref.nout, ref.first[0] ? ref.first : "none", r < NRES ? "with" : "delivered", r < NRES ? RESN[r] : HISTN[r - NRES], o.nout, o.first[0] ? o.first : "none",
				     memcmp(o.post, ref.post, sizeof o.post) ? "; post-states differ" : "");
			}
			vw_restore(snap);
		}
		if (is_client && honlen > 0 && have_hon_ref) for (int v = 0; v < 2; v++) {
			/* a datagram the client rejects (no tun write, reassembly position and query ids untouched) must not change what the
			 * honest answer that follows delivers: whatever the rejected one left in the decoder's variables stays there */
			struct packet *ip = ca_w_inpkt(); int s0 = ip->seqno, f0 = ip->fragment, l0 = ip->len; unsigned c0 = ca_w_chunkid();
			cur_res = 0; res_tail = sh->tail; res_taillen = sh->taillen;
			h128_init(&OH); nout = 0; firstout[0] = 0; nouts_kept = 0; h128_init(&TWH); ntunw = 0;
			deliver(sh);
			ip = ca_w_inpkt();
			if (ntunw == 0 && vw_alive(1) && ip->seqno == s0 && ip->fragment == f0 && ip->len == l0 && ca_w_chunkid() == c0) {
				shape hs; memset(&hs, 0, sizeof hs); memcpy(hs.d, HON[v], honlen); hs.len = honlen;
				h128_init(&TWH); ntunw = 0;
				deliver(&hs);
				uint64_t th[2]; reasm_hash(&TWH); h128_final(&TWH, th);
				xp_count(K_AFTER_REJECTED, 1);
				if (ntunw != hon_ref_n[v] || memcmp(th, hon_ref_h[v], sizeof th))
					viol("client-delivery-depends-on-a-rejected-datagram", "%s: after '%s' (rejected: nothing delivered, reassembly state and query ids unchanged) the honest %s makes the client write %d packets to its tun and leaves %d bytes in reassembly; without the rejected datagram %d packets%s", where, sh->desc, v ? "first fragment" : "answer", ntunw, ca_w_inpkt()->len, hon_ref_n[v], ntunw == hon_ref_n[v] ? " (other contents or reassembly state)" : "");
			}
			vw_restore(snap);
		}
		if (reacted) xp_count(K_REACTIONS, 1);
		xp_outcome(((uint64_t)is_client << 60) ^ ((uint64_t)ref.nout << 50) ^ ref.out[0]);
	}
	vw_snap_free(snap);
	__atomic_fetch_add(&XS->states, nsh, __ATOMIC_RELAXED);
	__atomic_fetch_add(&XS->transitions, (long)nsh * nres, __ATOMIC_RELAXED);
	__atomic_fetch_add(&XS->execs, (long)nsh * nres, __ATOMIC_RELAXED);
}

static void srv_deliver_shape(const shape *sh)
{
	const struct sockaddr_storage *src = sh->from == 0 ? &A_ADDR : sh->from == 1 ? &B_ADDR : &X_ADDR;
	srv_deliver(src, sh->d, sh->len);
}

static const char *SRV_PRE[4] = { "server, no session", "server, sessions A and B logged in (lazy), each with a held ping", "server, session A in the middle of an upstream packet", "server, sessions A and B logged in and switched to raw UDP mode" };

/* ================================================================ client side */
static unsigned char cli_lastq[700]; static int cli_lastqlen;
static int cli_capture;
static int cli_fate(int d, int to_server)
{
	/* after boot: nothing reaches the server any more; client queries are outputs */
	if (!cli_capture) return 0;
	vw_dgram *g = &W.dg[d];
	if (to_server) { cli_lastqlen = g->len > 700 ? 700 : g->len; memcpy(cli_lastq, g->data, cli_lastqlen); note_out(0, &g->dst, g->data, g->len); }
	vw_dgram_free(d);
	return 1;
}
static void cli_tunw(int proc, const unsigned char *data, int len, int matched) { (void)matched; if (cli_capture) note_out(3 + 16 * proc, NULL, data, len); }
static void cli_on_send_direct(int d) { vw_dgram *g = &W.dg[d]; lastoutlen = g->len > (int)sizeof lastout ? (int)sizeof lastout : g->len; memcpy(lastout, g->data, lastoutlen); vw_dgram_free(d); }

static const char *CLI_T[7] = { "NULL", "TXT", "CNAME", "MX", "SRV", "A", "NULL" };      /* cell 6: raw UDP mode */
static const char *CLI_O[7] = { "", "base32", "base32", "base32", "base64", "base32", "" };

static void cli_deliver_shape(const shape *sh)
{
	int di = vw_dgram_new(&ns_srv_addr, ns_alen, &ns_cli_addr[1], ns_alen, sh->d, sh->len, -1);
	vw_deliver_now(di, ns_cli_sock[1]);
	vw_run_quiescent(0);
}

/* an honest answer to the client's latest query carrying `payload`, built by the server image's real writer */
static int honest_answer(unsigned char *out, const unsigned char *payload, int plen, char downenc)
{
	static struct query q; static rd_msg m; char err[128]; jmp_buf jb;
	if (rd_parse(cli_lastq, cli_lastqlen, &m, err)) vw_fatal("client query unparsable: %s", err);
	memset(&q, 0, sizeof q);
	rd_name_to_dotted(m.qname, m.qnamelen, q.name, sizeof q.name);
	q.type = m.qtype; q.id = m.id; memcpy(&q.from, &ns_cli_addr[1], ns_alen); q.fromlen = ns_alen;
	void (*save)(int) = W.hooks.on_send; W.hooks.on_send = cli_on_send_direct;
	lastoutlen = -1;
	if (setjmp(jb) == 0) { vw_direct_begin(0, &jb); s_w_write_dns(NS_SRV_FD, &q, (const char *)payload, plen, downenc); vw_direct_end(); } else { vw_direct_end(); vw_fatal("write_dns exited"); }
	W.hooks.on_send = save;
	if (lastoutlen <= 0) return -1;
	memcpy(out, lastout, lastoutlen);
	return lastoutlen;
}

/* raw UDP mode: frames as the server sends them (ident 10 d1 9e, command nibble | user nibble), cut at every length */
static void cli_raw_shapes(void)
{
	unsigned char pkt[600], ip[200], z[300];
	nsh = 0;
	int uid = ca_w_userid();
	for (int sz = 40; sz <= 120; sz += 80) {
		int l = tm_ippkt(ip, sz, 0xC0A80101u, 0x0A000002, 9 + sz), zl = tm_compress(ip, l, z, sizeof z);
		int n = tm_raw(pkt, 0x20, uid, z, zl); shapes_from_seed(pkt, n, 0, "raw data frame for this client", 1);
		n = tm_raw(pkt, 0x20, (uid + 5) & 15, z, zl); shapes_from_seed(pkt, n, 0, "raw data frame for another user", 3);
	}
	int n = tm_raw(pkt, 0x30, uid, NULL, 0); shapes_from_seed(pkt, n, 0, "raw ping", 1);
	{ unsigned char h[16]; memset(h, 0x77, 16); n = tm_raw(pkt, 0x10, uid, h, 16); shapes_from_seed(pkt, n, 0, "raw login frame", 1); }
	for (int c = 0; c < 16; c++) { pkt[0] = 0x10; pkt[1] = 0xd1; pkt[2] = 0x9e; pkt[3] = (c << 4) | uid; add_shape(pkt, 4, NULL, 0, 0, "raw header only, command nibble %d", c); }
}

static void cli_shapes(int cell)
{
	unsigned char ans[4200], var[4200]; int n;
	int step = thorough ? 1 : 2;
	nsh = 0;
	/* payload: data header (nothing new upstream acked, downstream seq 1 frag 0 last) + compressed IP packet for the client's tun */
	unsigned char ip[100], z[200], pl[300];
	int l = tm_ippkt(ip, 40, 0xC0A80101u, 0x0A000002, 9), zl = tm_compress(ip, l, z, sizeof z);
	pl[0] = 0x80; pl[1] = (1 << 5) | 1; memcpy(pl + 2, z, zl);
	char de = cell == 0 ? 'T' : cell == 4 ? 'S' : 'T';
	n = honest_answer(ans, pl, 2 + zl, de);
	if (n < 0) vw_fatal("no honest answer");
	honlen = n; memcpy(HON[0], ans, n);
	{ unsigned char pl2[300]; memcpy(pl2, pl, 2 + zl); pl2[1] = (1 << 5); int k2 = honest_answer(HON[1], pl2, 2 + zl, de); if (k2 != n) honlen = 0; }
	shapes_from_seed(ans, n, 0, "data answer", step);
	if (cell == 3 || cell == 4) {
		/* an answer of several records (400 bytes of an unrelated, undecodable fragment), cut at every length: the records before the cut are complete */
		static unsigned char bigp[420]; bigp[0] = 0x80; bigp[1] = (5 << 5) | (3 << 1); for (int k = 2; k < 400; k++) bigp[k] = (unsigned char)(k * 29 + 7);
		int k = honest_answer(var, bigp, 400, de);
		if (k > 0) shapes_from_seed(var, k, 0, "several-record answer", step);
	}
	/* dataless answer (2-byte header) */
	{ unsigned char hdr[2] = { 0x80, 0 }; int k = honest_answer(var, hdr, 2, de); if (k > 0) shapes_from_seed(var, k, 0, "dataless answer", step); }
	/* RDLENGTH of the first record: locate it with the strict parser */
	static rd_msg m; char err[128];
	if (!rd_parse(ans, n, &m, err) && m.nrr >= 1) {
		int lenpos = m.rr[0].rdoff - 2, remaining = n - m.rr[0].rdoff;
		int vals[] = { remaining - 1, remaining + 1, remaining + 300, 4096, 65535, 0, 1 };
		for (unsigned v = 0; v < sizeof vals / sizeof vals[0]; v++) {
			memcpy(var, ans, n); var[lenpos] = vals[v] >> 8; var[lenpos + 1] = vals[v];
			add_shape(var, n, NULL, 0, 0, "data answer with RDLENGTH %d (%d bytes of RDATA present)", vals[v], remaining);
			/* the same, truncated right after the record header */
			add_shape(var, m.rr[0].rdoff, ans + m.rr[0].rdoff, remaining, 0, "data answer with RDLENGTH %d cut right after the record header", vals[v]);
			add_shape(var, m.rr[0].rdoff + 3, ans + m.rr[0].rdoff + 3, remaining - 3, 0, "data answer with RDLENGTH %d cut 3 bytes into RDATA", vals[v]);
		}
		if (m.rr[0].type == 16) {
			/* TXT: first string length past the end */
			int p = m.rr[0].rdoff;
			memcpy(var, ans, n); var[p] = 255; add_shape(var, n, NULL, 0, 0, "TXT answer whose first string claims 255 bytes");
			memcpy(var, ans, n); var[p] = (unsigned char)(remaining + 3); add_shape(var, n, NULL, 0, 0, "TXT answer whose first string runs 4 bytes past the message");
		}
		if (m.rr[0].type == 15 || m.rr[0].type == 33 || m.rr[0].type == 5) {
			/* target name: last label length grown so that it runs past RDATA / the message */
			int hdr = m.rr[0].type == 15 ? 2 : m.rr[0].type == 33 ? 6 : 0;
			int p = m.rr[0].rdoff + hdr, lastlab = -1;
			while (p < n && ans[p] && (ans[p] & 0xc0) == 0) { lastlab = p; p += 1 + ans[p]; }
			if (lastlab >= 0) for (int grow = 1; grow <= 40; grow += 13) {
				memcpy(var, ans, n); var[lastlab] = ans[lastlab] + grow;
				add_shape(var, n, NULL, 0, 0, "answer whose target name's last label is declared %d bytes longer than it is", grow);
				add_shape(var, lastlab + 1 + ans[lastlab], NULL, 0, 0, "answer cut at the end of a target label declared %d bytes longer", grow);
			}
		}
		/* owner name pointer variants: the answer's owner is c0 0c; make it point at / past the end */
		int own = m.rr[0].rdoff - 12;
		if (own > 12 && ans[own] == 0xc0) for (int t = n - 2; t <= n + 1; t++) { memcpy(var, ans, n); var[own] = 0xc0 | (t >> 8); var[own + 1] = t; add_shape(var, n, NULL, 0, 0, "answer whose owner name is a pointer to offset %d of %d", t, n); }
	}
	int qid = (cli_lastq[0] << 8) | cli_lastq[1];
	pointer_shapes(qid, 1, 0, cli_lastq[cli_lastqlen - 4] << 8 | cli_lastq[cli_lastqlen - 3]);
	/* question name = first char of the client's query then a pointer to / past the end (passes the reply matching) */
	for (int delta = -2; delta <= 1; delta++) {
		unsigned char p[80]; int k = 12;
		memset(p, 0, sizeof p); memcpy(p, cli_lastq, 12); p[2] = 0x84; p[3] = 0; p[7] = 1;
		p[k++] = 1; p[k++] = cli_lastq[13];
		int ptr = k; k += 2;
		p[k++] = cli_lastq[cli_lastqlen - 4]; p[k++] = cli_lastq[cli_lastqlen - 3]; p[k++] = 0; p[k++] = 1;
		/* answer record header only: name pointer, type NULL, class, ttl, rdlen 40, no data */
		p[k++] = 0xc0; p[k++] = 12; p[k++] = cli_lastq[cli_lastqlen - 4]; p[k++] = cli_lastq[cli_lastqlen - 3]; p[k++] = 0; p[k++] = 1; k += 4; p[k++] = 0; p[k++] = 40;
		int t = k + delta; p[ptr] = 0xc0 | (t >> 8); p[ptr + 1] = t;
		add_shape(p, k, NULL, 0, 0, "answer matching the client's query, question name pointing to offset %d of %d, RDLENGTH 40 with no RDATA", t, k);
	}
	/* an answer whose record data is longer than the client's 4096-byte record buffer, complete and cut at every offset
	 * around the 4096th byte of record data (for TXT that is a string boundary) with RDLENGTH left as it was: the
	 * bytes the record claims beyond the cut are the previous datagram's */
	if (cell <= 1) {
		static unsigned char bigpl[4200], big[9000];
		/* TXT: the payload lengths whose text fills the record buffer to within a string (content <= 4096 < RDLENGTH) and one beyond */
		int done = 0;
		for (int bl = cell == 0 ? 4100 : 2540; bl <= (cell == 0 ? 4100 : 2600) && done < 3; bl++) {
			bigpl[0] = 0x80; bigpl[1] = (1 << 5) | 1; for (int k = 2; k < bl; k++) bigpl[k] = 1 + k % 251;
			int bn = honest_answer(big, bigpl, bl, de);
			if (!(bn > 0 && bn <= 4700 && !rd_parse(big, bn, &m, err) && m.nrr >= 1 && m.rr[0].rdlen > 4096)) continue;
			if (cell == 1 && m.rr[0].rdlen < 4110) continue;           /* the last string has at least 13 bytes */
			done++;
			int ro = m.rr[0].rdoff;
			add_shape(big, bn, NULL, 0, 0, "complete answer with %d bytes of record data", m.rr[0].rdlen);
			for (int cut = ro + 4088; cut <= ro + 4100 && cut < bn; cut++)
				add_shape(big, cut, big + cut, bn - cut, 0, "answer with RDLENGTH %d cut after %d bytes of record data", m.rr[0].rdlen, cut - ro);
			for (int cut = ro + 255; cut < ro + 4088 && cut < bn; cut += 256 * 5)
				add_shape(big, cut, big + cut, bn - cut, 0, "answer with RDLENGTH %d cut after %d bytes of record data", m.rr[0].rdlen, cut - ro);
		}
		if (!done) xp_sample("C12 client cell %d: no answer with more than 4096 bytes of record data could be built", cell);
	}
}

static void job(int j)
{
	mk_crafted();
	if (j < 4) {
		srv_boot(j);
		srv_shapes(j);
		xp_sample("%s: %d datagram shapes x (%d residues + %d histories), e.g. '%s' / '%s'", SRV_PRE[j], nsh, NRES, NHIST, SH[nsh / 3].desc, SH[nsh - 20].desc);
		run_shapes(0, SRV_PRE[j], srv_deliver_shape);
		return;
	}
	int cell = j - 4;
	ns_cfg cfg; ns_defaults(&cfg);
	cfg.qtype = CLI_T[cell]; cfg.downenc = CLI_O[cell]; cfg.lazy = 1; cfg.fragsize = cell >= 2 && cell < 6 ? 100 : 0;
	cfg.raw = cell == 6;
	ns_mon_tun_write = cli_tunw;
	ns_extra_fate = cli_fate; cli_capture = 0;
	W.hooks.on_sanitizer = on_san;
	if (ns_boot(&cfg, 150 * 1000000LL) != 0) { xp_sample("client cell -T %s: handshake failed, not explored", CLI_T[cell]); return; }
	IMG_REGISTER(s); IMG_REGISTER(ca);
	W.hooks.on_sanitizer = on_san;
	W.hooks.recv_residue = residue;
	vw_run_until(W.now + 300000);
	/* from now on the harness is the server: remember the client's latest query (the held ping) */
	cli_capture = 1;
	{
		/* the client's outstanding query is its last ping: make it send a fresh one so that we know its bytes */
		int64_t t = W.now + (cell == 6 ? 21000000 : 4100000);     /* raw mode pings every 20 s */
		h128_init(&OH); nout = 0;
		while (W.now < t && vw_step()) ;
		if (cli_lastqlen <= 0) vw_fatal("client sent no query to answer");
		if (cell == 6 && ca_w_conn() != CONN_RAW_UDP) { xp_sample("client cell raw mode: raw login did not succeed, not explored"); return; }
		/* drop pending deliveries to the server (none should exist) */
	}
	for (int i = 0; i < VW_MAXEVENTS; i++) if (W.ev[i].used && W.ev[i].kind == VW_EV_DELIVER) { vw_dgram_free(W.ev[i].a); W.ev[i].used = 0; }
	other_len = tm_ping(other_dgram, 0x802, cfg.qtype[0] == 'N' ? 10 : 16, 1, 0, 0, 0x2345, DOM);
	if (cell == 6) cli_raw_shapes(); else cli_shapes(cell);
	char where[80]; snprintf(where, sizeof where, cell == 6 ? "client tunnelling in raw UDP mode" : "client tunnelling with -T %s", CLI_T[cell]);
	xp_sample("%s: %d answer shapes x %d residues, e.g. '%s' / '%s'", where, nsh, NRES, SH[nsh / 3].desc, SH[nsh - 5].desc);
	run_shapes(1, where, cli_deliver_shape);
}

int main(int argc, char **argv)
{
	hc_args a = hc_parse(argc, argv, "C12");
	thorough = a.thorough;
	memset(pw32, 0, sizeof pw32); strcpy((char *)pw32, "sesame");
	vw_mkaddr(&A_ADDR, &ALEN, "198.51.100.7", 4000); vw_mkaddr(&B_ADDR, &ALEN, "198.51.100.8", 4001); vw_mkaddr(&X_ADDR, &ALEN, "203.0.113.9", 4999);
	vw_mkaddr(&LOCALDNS, &ALEN, "127.0.0.1", 5353);
	{ const struct encoder *e[4] = { &s_base32_ops, &s_base64_ops, &s_base64u_ops, &s_base128_ops }; for (int k = 0; k < 4; k++) ref_calibrate(k, e[k]->encode); }
	xp_init("C12", a.tier, 1024, a.budget_s);
	xp_guard(NULL, &W.cur, 1);
	if (a.replay) { xp_load_replay(a.replay); job(XC.job); return 0; }
	hc_quiet();
	xp_run_jobs(4 + 7, job, a.workers);
	char extra[400];
	snprintf(extra, sizeof extra, "\"shapes\":%ld,\"deliveries\":%ld,\"server_shapes\":%ld,\"client_shapes\":%ld,\"shapes_with_a_reaction\":%ld,\"emitted_names_checked_against_own_bytes\":%ld,\"honest_answers_after_a_rejected_datagram\":%ld,\"histories\":%d,\"residues\":%d,\"sanitizer_notes_for_C05_C06\":%ld",
		 XS->counters[K_SHAPES], XS->counters[K_DELIVERIES], XS->counters[K_SRV_SHAPES], XS->counters[K_CLI_SHAPES], XS->counters[K_REACTIONS], XS->counters[K_NAMECHK], XS->counters[K_AFTER_REJECTED], NHIST, NRES, XS->counters[K_SAN]);
	xp_print_stats(extra);
	return 0;
}
