/* C18: tunnel address pool.  Exhaustive over netmask x server host position through the real
 * init_users()/find_user_by_ip(); reference computed from the property statement. */
#include "harness_common.h"
#include "vw.h"
#include "explore.h"
#include "images.h"
#include "refdns.h"
#include "adv.h"
#include "tmsg.h"

IMG_SERVER(s)
void s_login_calculate(char *buf, int buflen, const char *pass, int seed);

enum { K_CONFIGS, K_LOOKUPS, K_SKIPCASES, K_LOGINS };

static void viol(const char *what, const char *fmt, ...)
{
	char detail[300], sig[100];
	va_list ap; va_start(ap, fmt); vsnprintf(detail, sizeof detail, fmt, ap); va_end(ap);
	snprintf(sig, sizeof sig, "C18:%s", what);
	xp_violation(sig, "%s", detail);
}

static const char *ipstr(uint32_t hostorder)
{
	static char b[4][20]; static int k;
	char *o = b[k++ & 3];
	snprintf(o, 20, "%u.%u.%u.%u", hostorder >> 24, (hostorder >> 16) & 255, (hostorder >> 8) & 255, hostorder & 255);
	return o;
}

static void one_config(uint32_t base, int bits, uint32_t pos, int deep)
{
	uint32_t size = 1u << (32 - bits);
	uint32_t mask = ~(size - 1);
	uint32_t srv = (base & mask) | pos;
	uint32_t net = base & mask, bc = net | (size - 1);
	int want = (int)((size - 3) < 16 ? (size - 3) : 16);
	if (s_users) { free(s_users); s_users = NULL; }
	int n = s_init_users(htonl(srv), bits);
	xp_count(K_CONFIGS, 1);
	if (pos <= (uint32_t)want + 1) xp_count(K_SKIPCASES, 1);
	if (n != want) { viol("pool-size", "server %s/%d: %d sessions, expected min(16, size-3) = %d", ipstr(srv), bits, n, want); if (n > want) n = want; }
	struct tun_user *u = s_users;
	for (int i = 0; i < n; i++) {
		uint32_t a = ntohl(u[i].tun_ip);
		if ((a & mask) != net) viol("address-outside-subnet", "server %s/%d: session %d gets %s", ipstr(srv), bits, i, ipstr(a));
		else if (a == srv) viol("address-is-servers", "server %s/%d: session %d gets the server's own address", ipstr(srv), bits, i);
		else if (a == net) viol("address-is-network", "server %s/%d: session %d gets the network address %s", ipstr(srv), bits, i, ipstr(a));
		else if (a == bc) viol("address-is-broadcast", "server %s/%d: session %d gets the broadcast address %s", ipstr(srv), bits, i, ipstr(a));
		for (int j = 0; j < i; j++)
			if (u[j].tun_ip == u[i].tun_ip) viol("address-duplicate", "server %s/%d: sessions %d and %d both get %s", ipstr(srv), bits, j, i, ipstr(a));
		if (u[i].id != i) viol("slot-id", "server %s/%d: slot %d has id %d", ipstr(srv), bits, i, u[i].id);
	}
	xp_outcome(((uint64_t)bits << 32) ^ (pos <= (uint32_t)want + 1 ? pos : 0xffff) ^ ((uint64_t)n << 40));
	if (!deep || n < 1) return;
	/* lookup: flag patterns on slots 0 and n-1 */
	time_t now = VW_EPOCH + W.now / 1000000;
	int slots[2] = { 0, n - 1 };
	for (int pat = 0; pat < 256; pat++) {
		for (int i = 0; i < n; i++) { u[i].active = 0; u[i].authenticated = 0; u[i].disabled = 0; u[i].last_pkt = 0; }
		int live[2];
		for (int k = 0; k < 2; k++) {
			int f = (pat >> (4 * k)) & 15, i = slots[k];
			if (k == 1 && slots[1] == slots[0]) { live[1] = live[0]; continue; }
			u[i].active = f & 1; u[i].authenticated = (f >> 1) & 1; u[i].disabled = (f >> 2) & 1;
			u[i].last_pkt = (f & 8) ? now - 100 : now - 10;
			live[k] = (f & 1) && (f & 2) && !(f & 4) && !(f & 8);
		}
		/* candidates: every pool address, server, network, broadcast, one more in-subnet address */
		uint32_t cand[24]; int nc = 0;
		for (int i = 0; i < n; i++) cand[nc++] = ntohl(u[i].tun_ip);
		cand[nc++] = srv; cand[nc++] = net; cand[nc++] = bc;
		if (size > (uint32_t)n + 3) { uint32_t x = net + n + 2; if (x == srv) x++; if (x != bc) cand[nc++] = x; }
		cand[nc++] = bc + 1;
		for (int c = 0; c < nc; c++) {
			int r = s_find_user_by_ip(htonl(cand[c]));
			xp_count(K_LOOKUPS, 1);
			int wantr = -1;
			for (int k = 0; k < 2; k++) if (live[k] && ntohl(u[slots[k]].tun_ip) == cand[c]) { wantr = slots[k]; break; }
			if (r != wantr)
				viol(r >= 0 ? "lookup-finds-wrong-session" : "lookup-misses-owner",
				     "server %s/%d flags 0x%02x: find_user_by_ip(%s) = %d, expected %d", ipstr(srv), bits, pat, ipstr(cand[c]), r, wantr);
		}
	}
}

/* job table: (netmask bits, base, position chunk) */
static const uint32_t BASES[] = { 0x0A000000u, 0xC0A8FF00u, 0xAC1FFFFCu };
static struct { int bits, base; uint32_t from, to; } JOBS[512];
static int njobs, thorough;

static void mkjobs(void)
{
	for (int bits = 8; bits <= 30; bits++)
		for (int b = 0; b < 3; b++) {
			uint32_t size = 1u << (32 - bits);
			if (bits < 16) { JOBS[njobs].bits = bits; JOBS[njobs].base = b; JOBS[njobs].from = 0; JOBS[njobs].to = 0; njobs++; continue; }
			if (!thorough && bits <= 18 && b > 0) continue;      /* quick: one base for the three largest exhaustive subnets */
			for (uint32_t from = 1; from <= size - 2; from += 4096) {
				JOBS[njobs].bits = bits; JOBS[njobs].base = b; JOBS[njobs].from = from;
				JOBS[njobs].to = from + 4095 < size - 2 ? from + 4095 : size - 2;
				njobs++;
			}
		}
}


/* what each session is TOLD: the real server loop does the version and login exchange for every slot of a configuration and the
 * addresses in the login reply ("server-client-mtu-netbits") must be the ones the server's table holds and routes by */
static const struct { const char *ip; int bits; } HSCFG[] = {
	{ "10.0.0.1", 27 }, { "10.0.0.5", 29 }, { "192.168.100.129", 25 }, { "100.100.100.105", 29 }, { "172.31.250.100", 27 }, { "192.168.255.250", 30 },
	{ "223.255.255.254", 24 }, { "1.1.1.1", 8 }, { "111.222.233.244", 28 }, { "192.168.100.200", 26 },
};
#define NHS ((int)(sizeof HSCFG / sizeof HSCFG[0]))
static void hs_addr(struct sockaddr_storage *me, socklen_t *ml, char *a, size_t an, int variant, const char *net, int host, int port)
{
	switch (variant % 3) {
	case 0: snprintf(a, an, "%s.%d", net, host); vw_mkaddr(me, ml, a, port); break;
	case 1: snprintf(a, an, "2001:db8:%d::%x", variant, host); vw_mkaddr6(me, ml, a, port); break;
	default: snprintf(a, an, "::ffff:%s.%d", net, host); vw_mkaddr6(me, ml, a, port); break;
	}
}

static void hs_job(int k)
{
	struct w_server_cfg c = { .topdomain = "t.example.com", .password = "sesame", .my_ip = HSCFG[k].ip, .netmask = HSCFG[k].bits, .mtu = 1130, .check_ip = 1, .srand_seed = 1 };
	unsigned char pw32[33]; memset(pw32, 0, sizeof pw32); strcpy((char *)pw32, "sesame");
	vw_init();
	adv_boot(&c, 1, 0);
	int nu = s_w_created_users();
	struct tun_user *us = s_w_users();
	char seen[16][64]; int nseen = 0;
	for (int i = 0; i < nu && i < 16; i++) {
		struct sockaddr_storage me; socklen_t ml; char a[64];
		/* how the session reaches the server: IPv4, IPv6, or an IPv4-mapped IPv6 source on the IPv6 socket (a dual-stack
		 * socket handed over by the service manager); the server formats such addresses through other library calls
		 * (seeded C18-h: a static inet_ntoa() buffer shared with the login reply) */
		hs_addr(&me, &ml, a, sizeof a, k + i, "198.51.100", 10 + i, 4000 + i);
		uint8_t pkt[700]; const uint8_t *pl; static rd_msg m; int n;
		adv_clear(); n = tm_version(pkt, 100 + i, 10, 0x00000502, 0x300 + i, c.topdomain); adv_send(&me, ml, pkt, n);
		if (adv_nout != 1 || (n = tm_null_payload(adv_outs[0].data, adv_outs[0].len, &pl, &m)) < 9 || memcmp(pl, "VACK", 4)) { viol("session-not-creatable", "%s/%d: version request %d of %d not acknowledged", HSCFG[k].ip, HSCFG[k].bits, i + 1, nu); return; }
		int slot = pl[8]; uint32_t seed = (pl[4] << 24) | (pl[5] << 16) | (pl[6] << 8) | pl[7];
		uint8_t h[16]; s_login_calculate((char *)h, 16, (const char *)pw32, (int)seed);
		adv_clear(); n = tm_login(pkt, 200 + i, 10, slot, h, 16, 0x400 + i, c.topdomain); adv_send(&me, ml, pkt, n);
		xp_count(K_LOGINS, 1);
		if (adv_nout != 1 || (n = tm_null_payload(adv_outs[0].data, adv_outs[0].len, &pl, &m)) < 10) { viol("login-not-answered", "%s/%d: login of session %d not answered", HSCFG[k].ip, HSCFG[k].bits, slot); return; }
		char rep[200]; snprintf(rep, sizeof rep, "%.*s", n > 190 ? 190 : n, pl);
		char sip[70] = "", cip[70] = ""; int mtu = -1, nb = -1;
		if (sscanf(rep, "%64[^-]-%64[^-]-%d-%d", sip, cip, &mtu, &nb) != 4) { viol("login-reply-unparsable", "%s/%d: login reply '%s'", HSCFG[k].ip, HSCFG[k].bits, rep); continue; }
		struct in_addr ia; ia.s_addr = us[slot].tun_ip;
		char want[32]; snprintf(want, sizeof want, "%s", inet_ntoa(ia));
		if (strcmp(sip, HSCFG[k].ip)) viol("announced-server-address-wrong", "%s/%d: login reply '%s' announces server %s", HSCFG[k].ip, HSCFG[k].bits, rep, sip);
		if (strcmp(cip, want)) viol("announced-address-differs-from-assigned", "%s/%d: session %d is told %s but the server's table holds (and routes) %s", HSCFG[k].ip, HSCFG[k].bits, slot, cip, want);
		if (mtu != 1130 || nb != HSCFG[k].bits) viol("announced-mtu-or-netmask-wrong", "%s/%d: login reply '%s'", HSCFG[k].ip, HSCFG[k].bits, rep);
		for (int j = 0; j < nseen; j++) if (!strcmp(seen[j], cip)) viol("announced-address-not-distinct", "%s/%d: two sessions are told the address %s", HSCFG[k].ip, HSCFG[k].bits, cip);
		if (nseen < 16) snprintf(seen[nseen++], 64, "%s", cip);
		if (!strcmp(cip, HSCFG[k].ip)) viol("address-is-servers", "%s/%d: session %d is told the server's own address", HSCFG[k].ip, HSCFG[k].bits, slot);
		if (s_find_user_by_ip(inet_addr(cip)) != slot) viol("lookup-misses-owner", "%s/%d: looking up the announced address %s does not find session %d", HSCFG[k].ip, HSCFG[k].bits, cip, slot);
	}
	/* second life of every slot: all sessions fall silent for 61 s (looking their addresses up finds nobody), then other parties
	 * send a version request only and are handed the slots again: an address is not found before its new holder has logged in */
	adv_advance(61 * 1000000LL);
	for (int i = 0; i < nu && i < 16; i++) {
		xp_count(K_LOOKUPS, 1);
		int r = s_find_user_by_ip(us[i].tun_ip);
		if (r >= 0) viol("lookup-finds-wrong-session", "%s/%d: session %d has been silent for 61 s but looking up its address still finds session %d", HSCFG[k].ip, HSCFG[k].bits, i, r);
	}
	for (int i = 0; i < nu && i < 16; i++) {
		struct sockaddr_storage me; socklen_t ml; char a[64];
		hs_addr(&me, &ml, a, sizeof a, k + i + 1, "198.51.101", 10 + i, 5000 + i);
		uint8_t pkt[700]; const uint8_t *pl; static rd_msg m; int n;
		adv_clear(); n = tm_version(pkt, 300 + i, 10, 0x00000502, 0x500 + i, c.topdomain); adv_send(&me, ml, pkt, n);
		if (adv_nout != 1 || (n = tm_null_payload(adv_outs[0].data, adv_outs[0].len, &pl, &m)) < 9 || memcmp(pl, "VACK", 4)) { viol("session-not-creatable", "%s/%d: after 61 s of silence version request %d of %d is not acknowledged", HSCFG[k].ip, HSCFG[k].bits, i + 1, nu); return; }
		int slot = pl[8];
		if (slot < 0 || slot >= nu) { viol("slot-id", "%s/%d: VACK names slot %d of %d", HSCFG[k].ip, HSCFG[k].bits, slot, nu); return; }
		xp_count(K_LOOKUPS, 1);
		int r = s_find_user_by_ip(us[slot].tun_ip);
		if (r >= 0) viol("lookup-finds-wrong-session", "%s/%d: slot %d was handed to a party that only sent a version request, yet looking up its address finds session %d", HSCFG[k].ip, HSCFG[k].bits, slot, r);
		uint32_t seed = (pl[4] << 24) | (pl[5] << 16) | (pl[6] << 8) | pl[7];
		uint8_t h[16]; s_login_calculate((char *)h, 16, (const char *)pw32, (int)seed);
		adv_clear(); n = tm_login(pkt, 400 + i, 10, slot, h, 16, 0x600 + i, c.topdomain); adv_send(&me, ml, pkt, n);
		xp_count(K_LOGINS, 1);
		if (adv_nout == 1 && (n = tm_null_payload(adv_outs[0].data, adv_outs[0].len, &pl, &m)) >= 10) {
			char rep[200], sip[70] = "", cip[70] = ""; int mtu = -1, nb = -1; snprintf(rep, sizeof rep, "%.*s", n > 190 ? 190 : n, pl);
			struct in_addr ia; ia.s_addr = us[slot].tun_ip;
			if (sscanf(rep, "%64[^-]-%64[^-]-%d-%d", sip, cip, &mtu, &nb) != 4 || strcmp(cip, inet_ntoa(ia)) || strcmp(sip, HSCFG[k].ip))
				viol("announced-address-differs-from-assigned", "%s/%d: second holder of slot %d is told '%s' but the server's table holds (and routes) %s", HSCFG[k].ip, HSCFG[k].bits, slot, rep, inet_ntoa(ia));
		} else viol("login-not-answered", "%s/%d: login of the second holder of slot %d not answered", HSCFG[k].ip, HSCFG[k].bits, slot);
		if (s_find_user_by_ip(us[slot].tun_ip) != slot) viol("lookup-misses-owner", "%s/%d: second holder of slot %d logged in, looking up its address does not find it", HSCFG[k].ip, HSCFG[k].bits, slot);
	}
	xp_outcome(0x18000 + k);
	if (k == 2) xp_sample("handshake through the real server loop for every slot of %d configurations (e.g. %s/%d): announced server/client address, mtu and netmask compared with the server's table", NHS, HSCFG[k].ip, HSCFG[k].bits);
}

static void job(int j)
{
	if (j >= njobs) { hs_job(j - njobs); return; }
	int bits = JOBS[j].bits; uint32_t base = BASES[JOBS[j].base];
	uint32_t size = 1u << (32 - bits);
	if (bits >= 16) {
		for (uint32_t pos = JOBS[j].from; pos <= JOBS[j].to; pos++) one_config(base, bits, pos, pos <= 20 || pos >= size - 3 || (pos % 4099) == 0);
		if (JOBS[j].from == 1 && JOBS[j].base == 0) xp_sample("/%d: every server host position 1..%u under base %s", bits, size - 2, ipstr(base & ~(size - 1)));
	} else {
		uint32_t P[] = { 1, 2, 3, 15, 16, 17, 18, 19, 254, 255, 256, 257, 65535, 65536, size / 2, size - 3, size - 2 };
		for (unsigned i = 0; i < sizeof P / sizeof P[0]; i++) one_config(base, bits, P[i], 1);
		for (uint32_t pos = 1; pos <= 4096; pos++) one_config(base, bits, pos, 0);
		if (JOBS[j].base == 0) xp_sample("/%d: positions 1..4096 and {15..19,254..257,65535,65536,size/2,size-3,size-2}", bits);
	}
}

int main(int argc, char **argv)
{
	hc_args a = hc_parse(argc, argv, "C18");
	thorough = a.thorough;
	vw_init();
	xp_init("C18", a.tier, 1024, a.budget_s);
	xp_guard("!C18", NULL, 0);
	mkjobs();
	if (a.replay) { job(xp_load_replay(a.replay)); return 0; }
	hc_quiet();
	xp_run_jobs(njobs + NHS, job, a.workers);
	char extra[200];
	snprintf(extra, sizeof extra, "\"configs\":%ld,\"lookups\":%ld,\"skip_cases\":%ld,\"logins_through_server_loop\":%ld", XS->counters[K_CONFIGS], XS->counters[K_LOOKUPS], XS->counters[K_SKIPCASES], XS->counters[K_LOGINS]);
	xp_print_stats(extra);
	return 0;
}
