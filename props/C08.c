/* C08: upstream query names are legal, within the limit, and decode to what was sent.
 * Part A (E-C): build_hostname() for every (L, domain length, codec, header offset, payload
 *   length, content) + the server's extraction path (real dns_encode -> dns_decode ->
 *   query_datalen -> unpack_data).
 * Part B: the client's real message builders (send_chunk, send_ping, send_version, send_login,
 *   send_fragsize_probe, send_set_downstream_fragsize) driven through the client image with
 *   hostname_maxlen = L, datagram captured at sendto, strictly parsed, then extracted by the
 *   server-side functions. */
#include <setjmp.h>
#include <ctype.h>
#include "harness_common.h"
#include "vw.h"
#include "explore.h"
#include "images.h"
#include "refdns.h"
#include "refmd5.h"
#include "adv.h"
#include "tmsg.h"

IMG_SERVER(s)
IMG_CLIENT(ca)

enum { K_BUILDS, K_TRUNC, K_BUILDERS, K_GRID, K_INGEST };
static int thorough;
static const struct encoder *cenc[4], *senc[4];
static const char *CN[4] = { "Base32", "Base64", "Base64u", "Base128" };
static const int BITS[4] = { 5, 6, 26, 7 };

static void viol(const char *what, const char *fmt, ...)
{
	char detail[300], sig[100];
	va_list ap; va_start(ap, fmt); vsnprintf(detail, sizeof detail, fmt, ap); va_end(ap);
	snprintf(sig, sizeof sig, "C08:%s", what);
	xp_violation(sig, "%s", detail);
}

/* domain of exactly dl characters; shape 0 = labels as long as possible, 1 = many short labels */
static void mkdomain(char *d, int dl, int shape)
{
	int n = 0;
	if (dl < 3) dl = 3;
	if (shape == 0) {
		/* [long labels of 63 .]* rest ; last label "co"-like at least 1 char */
		int rem = dl;
		while (rem > 0) {
			int l = rem > 64 ? 63 : rem;         /* keep at least 1 char + dot for what follows */
			if (rem > 63 && rem <= 64) l = rem - 2; /* 64 -> 62 + '.' + 1 */
			if (n == 0 && rem <= 63) { l = rem - 2; if (l < 1) l = 1; } /* need two labels */
			for (int i = 0; i < l; i++) d[n++] = 'a' + (i % 26);
			rem -= l;
			if (rem > 0) { d[n++] = '.'; rem--; if (rem == 0) { n--; d[n - 1] = 'z'; } }
		}
	} else {
		for (int i = 0; i < dl; i++) d[n++] = (i & 1) ? '.' : 'a' + ((i / 2) % 26);
		if (d[n - 1] == '.') d[n - 1] = 'q';
		if (dl >= 2 && d[n - 2] != '.' && !memchr(d, '.', n)) d[1] = '.';
	}
	d[n] = 0;
}

/* strict legality of a presentation-format name */
static int legal_name(const char *name, int L, const char *domain, char *why)
{
	int n = strlen(name), dl = strlen(domain);
	if (n > L) { sprintf(why, "presentation length %d > limit %d", n, L); return 0; }
	int ll = 0, wire = 1;
	for (int i = 0; i <= n; i++) {
		if (i == n || name[i] == '.') {
			if (ll < 1) { sprintf(why, "empty label at %d", i); return 0; }
			if (ll > 63) { sprintf(why, "label of %d bytes at %d", ll, i); return 0; }
			wire += 1 + ll; ll = 0;
		} else ll++;
	}
	if (wire > 255) { sprintf(why, "wire length %d > 255", wire); return 0; }
	if (n < dl + 2 || strcasecmp(name + n - dl, domain) || name[n - dl - 1] != '.') { sprintf(why, "does not end in .%s", domain); return 0; }
	return 1;
}

/* server-side extraction of the data part: real dns_encode (client) -> real dns_decode (server)
 * -> real query_datalen -> real unpack_data; returns bytes extracted or -1 */
static int server_extract(const char *name, int hdr, const char *srvdomain, int codec, unsigned char *out, int outsz, char *cmd5)
{
	static char pkt[4096];
	struct query q;
	memset(&q, 0, sizeof q);
	q.type = 10; q.id = 77;
	int len = ca_dns_encode(pkt, sizeof pkt, &q, QR_QUERY, name, strlen(name));
	if (len < 1) return -2;
	{
		static rd_msg m; char err[128];
		if (rd_parse((uint8_t *)pkt, len, &m, err)) { viol("query-malformed", "name of %zu chars: %s", strlen(name), err); return -3; }
	}
	struct query sq;
	memset(&sq, 0, sizeof sq);
	if (s_dns_decode(NULL, 0, &sq, QR_QUERY, pkt, len) <= 0) return -4;
	int dlen = s_query_datalen(sq.name, srvdomain);
	if (dlen < 0) return -5;
	char in[512];
	memcpy(in, sq.name, dlen < 512 ? dlen : 512);
	if (cmd5) memcpy(cmd5, in, 5);
	static char unpacked[70000];
	if (dlen - hdr < 0) return -6;
	int r = s_unpack_data(unpacked, sizeof unpacked, in + hdr, dlen - hdr, senc[codec]);
	if (r > outsz) r = outsz;
	if (r > 0) memcpy(out, unpacked, r);
	return r;
}

static void one_build(int L, const char *domain, const char *srvdomain, int codec, int hdr, const unsigned char *payload, int plen, int content)
{
	char buf[4096]; char why[100];
	memset(buf, 'H', hdr);
	int k = ca_build_hostname(buf + hdr, sizeof(buf) - hdr, (const char *)payload, plen, domain, cenc[codec], L);
	xp_count(K_BUILDS, 1);
	if (k < plen) xp_count(K_TRUNC, 1);
	if (hdr == 5) { buf[0] = '0'; buf[1] = 'a'; buf[2] = 'b'; buf[3] = 'c'; buf[4] = 'd'; } else buf[0] = 'p';
	if (!legal_name(buf, L, domain, why)) { viol("illegal-name", "L=%d domain %zu chars %s hdr %d payload %d: %s", L, strlen(domain), CN[codec], hdr, plen, why); return; }
	if (k < 1 || k > plen) { viol("bad-consumed-count", "L=%d domain %zu chars %s hdr %d payload %d: builder reports %d", L, strlen(domain), CN[codec], hdr, plen, k); return; }
	unsigned char out[4096];
	int r = server_extract(buf, hdr, srvdomain, codec, out, sizeof out, NULL);
	if (r != k || memcmp(out, payload, k))
		viol("server-extracts-different-data", "L=%d domain %zu chars %s hdr %d payload %d content %d: builder reports %d bytes, server extracts %d%s",
		     L, strlen(domain), CN[codec], hdr, plen, content, k, r, (r == k) ? " (different bytes)" : "");
	xp_outcome(((uint64_t)codec << 60) ^ ((uint64_t)hdr << 56) ^ ((uint64_t)L << 40) ^ ((uint64_t)strlen(domain) << 24) ^ ((uint64_t)(k < plen) << 20) ^ k);
}

/* ---- part B: client builders ---- */
static unsigned char captured[70000]; static int caplen;
static void on_send(int d)
{
	vw_dgram *g = &W.dg[d];
	caplen = g->len; memcpy(captured, g->data, caplen > (int)sizeof captured ? (int)sizeof captured : caplen);
	vw_dgram_free(d);
}

static int captured_name(char *name, int namesz, int L, const char *domain, const char *what)
{
	static rd_msg m; char err[128], why[100];
	if (caplen < 0) { viol("builder-sent-nothing", "%s: L=%d domain %zu chars", what, L, strlen(domain)); return -1; }
	if (rd_parse(captured, caplen, &m, err)) { viol("query-malformed", "%s L=%d domain %zu chars: %s", what, L, strlen(domain), err); return -1; }
	rd_name_to_dotted(m.qname, m.qnamelen, name, namesz);
	if (!legal_name(name, L, domain, why)) { viol("illegal-name", "%s L=%d domain %zu chars: %s", what, L, strlen(domain), why); return -1; }
	return 0;
}

static void builders(int L, const char *domain, const char *srvdomain, int codec)
{
	struct w_client_cfg c; memset(&c, 0, sizeof c);
	vw_mkaddr(&c.nameserv, NULL, "192.0.2.1", 53); c.nameserv_len = sizeof(struct sockaddr_in);
	c.topdomain = domain; c.password = "x"; c.qtype = "NULL"; c.downenc = ""; c.selecttimeout = 4; c.lazymode = 1; c.hostname_maxlen = L;
	c.srand_seed = L * 131 + codec;
	jmp_buf jb;
	char name[300]; unsigned char out[4096]; char cmd5[8];
	if (setjmp(jb)) { vw_direct_end(); viol("builder-exit", "client exited in a message builder"); return; }
	vw_direct_begin(1, &jb);
	ca_w_setup(&c);
	ca_w_set_dataenc(BITS[codec]);
	ca_w_set_userid(3);
	ca_w_set_edns0(L & 1);
	/* data chunks: three payload sizes, offsets 0 and mid */
	static unsigned char data[3000];
	for (int i = 0; i < 3000; i++) data[i] = (unsigned char)(i * 73 + L);
	int sizes[3] = { 1, 97, 2048 };
	for (int si = 0; si < 3; si++) {
		ca_w_set_outpkt((char *)data, sizes[si], 0, 5, 9);
		caplen = -1;
		ca_w_send_chunk(21);
		xp_count(K_BUILDERS, 1);
		if (captured_name(name, sizeof name, L, domain, "send_chunk")) continue;
		int sent = ca_w_outpkt()->sentlen;
		if (sent < 1 || sent > sizes[si]) { viol("bad-consumed-count", "send_chunk L=%d domain %zu chars %s size %d: sentlen %d", L, strlen(domain), CN[codec], sizes[si], sent); continue; }
		int r = server_extract(name, 5, srvdomain, codec, out, sizeof out, cmd5);
		if (r != sent || memcmp(out, data, sent))
			viol("server-extracts-different-data", "send_chunk L=%d domain %zu chars %s size %d: sentlen %d, server extracts %d", L, strlen(domain), CN[codec], sizes[si], sent, r);
		if (cmd5[0] != '3') viol("chunk-header", "first header char %c is not the hex userid", cmd5[0]);
		/* histories: the chunk is re-sent (the 1 s timeout of client_tunnel()) after the client has built some other message
		 * in between - a ping for a downstream fragment that arrived meanwhile, a fragment-size request...  The re-sent name
		 * must still carry the chunk (seeded C08-h: a name buffer shared between the builders, not rebuilt on a re-send) */
		for (int between = 0; between < 5; between++) {
			char login[16]; memset(login, 0x33, 16);
			if (between == 1) ca_w_send_ping(21);
			else if (between == 2) ca_w_send_set_downstream_fragsize(21, 200);
			else if (between == 3) ca_w_send_fragsize_probe(21, 700);
			else if (between == 4) { ca_w_send_ping(21); ca_w_send_login(21, login, 16); }
			caplen = -1;
			ca_w_resend_chunk(21);
			xp_count(K_BUILDERS, 1);
			if (captured_name(name, sizeof name, L, domain, "send_chunk (re-send)")) continue;
			int sent2 = ca_w_outpkt()->sentlen;
			int r2 = server_extract(name, 5, srvdomain, codec, out, sizeof out, cmd5);
			if (sent2 != sent || r2 != sent || memcmp(out, data, sent))
				viol("server-extracts-different-data", "re-sent chunk after %s, L=%d domain %zu chars %s size %d: first transmission carried %d bytes, re-send says %d, server extracts %d%s", between == 0 ? "nothing" : between == 1 ? "a ping" : between == 2 ? "a fragment-size request" : between == 3 ? "a fragment-size probe" : "a ping and a login", L, strlen(domain), CN[codec], sizes[si], sent, sent2, r2, r2 == sent && memcmp(out, data, sent) ? " (other bytes)" : "");
		}
	}
	/* ping / version / login / set-fragsize: base32 payload after 1 command char */
	struct { const char *what; char cmd; int plen; } M[4] = { { "send_ping", 'p', 4 }, { "send_version", 'v', 6 }, { "send_login", 'l', 19 }, { "send_set_downstream_fragsize", 'n', 5 } };
	for (int mi = 0; mi < 4; mi++) {
		caplen = -1;
		char login[16]; memset(login, 0x5A, 16);
		if (mi == 0) ca_w_send_ping(21);
		else if (mi == 1) ca_w_send_version(21);
		else if (mi == 2) ca_w_send_login(21, login, 16);
		else ca_w_send_set_downstream_fragsize(21, 1234);
		xp_count(K_BUILDERS, 1);
		if (captured_name(name, sizeof name, L, domain, M[mi].what)) continue;
		int r = server_extract(name, 1, srvdomain, 0, out, sizeof out, cmd5);
		if (cmd5[0] != M[mi].cmd) viol("command-letter", "%s: first char %c", M[mi].what, cmd5[0]);
		/* the name carries a non-empty prefix of the message (the property allows truncation);
		 * the known leading bytes of each message must come out unchanged */
		unsigned char known[20]; int nk = 0;
		if (mi == 0) { known[0] = 3; known[1] = 0; nk = 2; }
		else if (mi == 1) { known[0] = 0; known[1] = 0; known[2] = 5; known[3] = 2; nk = 4; }
		else if (mi == 2) { known[0] = 3; memcpy(known + 1, login, 16); nk = 17; }
		else { known[0] = 3; known[1] = 1234 >> 8; known[2] = 1234 & 255; nk = 3; }
		if (r < 1 || r > M[mi].plen) viol("server-extracts-different-data", "%s L=%d domain %zu chars: server decodes %d bytes of a %d-byte message", M[mi].what, L, strlen(domain), r, M[mi].plen);
		else if (memcmp(out, known, r < nk ? r : nk)) viol("server-extracts-different-data", "%s L=%d domain %zu chars: decoded bytes differ from the message", M[mi].what, L, strlen(domain));
		if (r < M[mi].plen) xp_count(K_TRUNC, 1);
	}
	/* fragsize probe: header r + 3 base32 chars + 1 dummy, then filler */
	caplen = -1;
	ca_w_send_fragsize_probe(21, 1111);
	xp_count(K_BUILDERS, 1);
	if (!captured_name(name, sizeof name, L, domain, "send_fragsize_probe")) {
		int r = server_extract(name, 5, srvdomain, codec, out, sizeof out, cmd5);
		int fs = ((s_b32_8to5(cmd5[1]) & 1) << 10) | ((s_b32_8to5(cmd5[2]) & 31) << 5) | (s_b32_8to5(cmd5[3]) & 31);
		int uid = (s_b32_8to5(cmd5[1]) >> 1) & 15;
		if (cmd5[0] != 'r' || fs != 1111 || uid != 3) viol("server-extracts-different-data", "send_fragsize_probe: cmd %c size %d userid %d", cmd5[0], fs, uid);
		if (r < 1) viol("server-extracts-different-data", "send_fragsize_probe: no filler data decodes");
	}
	vw_direct_end();
}


/* Part C: data chunks built by the client's real build_hostname() are handed to the REAL server loop of a logged-in session
 * (after the session switched to the codec), and what the server holds for the packet in progress must be exactly the prefix
 * the builder reported - through handle_null_request()'s own guards, not a re-implementation of them. */
void s_login_calculate(char *buf, int buflen, const char *pass, int seed);
static void ingest_job(int codec)
{
	static const char *DOMS[3] = { "t.example.com", "a.b", "abcdefghijklmnopqrstuvwxyz.abcdefghijklmnopqrstuvwxyz.example.org" };
	static const int LS[3] = { 255, 100, 180 };
	for (int dj = 0; dj < 3; dj++) {
		const char *dom = DOMS[dj];
		struct w_server_cfg c = { .topdomain = dom, .password = "sesame", .my_ip = "10.0.0.1", .netmask = 29, .mtu = 1130, .check_ip = 1, .srand_seed = 1 };
		unsigned char pw32[33]; memset(pw32, 0, sizeof pw32); strcpy((char *)pw32, "sesame");
		vw_init();
		adv_boot(&c, 0, 0);
		struct sockaddr_storage me; socklen_t ml; vw_mkaddr(&me, &ml, "198.51.100.7", 4000);
		uint8_t pkt[900]; const uint8_t *pl; static rd_msg m; int n;
		adv_clear(); n = tm_version(pkt, 100, 10, 0x00000502, 0x300, dom); adv_send(&me, ml, pkt, n);
		if (adv_nout != 1 || (n = tm_null_payload(adv_outs[0].data, adv_outs[0].len, &pl, &m)) < 9 || memcmp(pl, "VACK", 4)) vw_fatal("ingest: no VACK");
		uint32_t seed = (pl[4] << 24) | (pl[5] << 16) | (pl[6] << 8) | pl[7];
		uint8_t h[16]; s_login_calculate((char *)h, 16, (const char *)pw32, (int)seed);
		adv_clear(); n = tm_login(pkt, 101, 10, 0, h, 16, 0x301, dom); adv_send(&me, ml, pkt, n);
		if (!s_w_users()[0].authenticated) vw_fatal("ingest: login refused");
		static const int CODE[4] = { 5, 6, 26, 7 };
		adv_clear(); n = tm_short(pkt, 102, 10, 's', tm_5to8(0), tm_5to8(CODE[codec]), 0x302, dom); adv_send(&me, ml, pkt, n);
		if (s_w_users()[0].encoder != senc[codec]) vw_fatal("ingest: codec switch to %s not accepted", CN[codec]);
		int seq = 0, id = 200, cmc = 0;
		static unsigned char payload[400];
		for (int li = 0; li < 3; li++) for (int content = 0; content < 2; content++) {
			int L = LS[li];
			if ((int)strlen(dom) > L - 24) continue;
			int cap = (L - (int)strlen(dom)) * (codec == 0 ? 5 : codec == 3 ? 7 : 6) / 8 + 3;
			for (int plen = 1; plen <= cap + 1 && plen <= (int)sizeof payload; plen++) {
				for (int i = 0; i < plen; i++) payload[i] = content == 0 ? 0xff : (unsigned char)(i * 7 + 1);
				char name[600];
				seq = (seq + 1) & 7;
				name[0] = '0';
				name[1] = tm_5to8(((seq & 7) << 2) | 0);
				name[2] = tm_5to8(0);
				name[3] = tm_5to8(0);                         /* not the last fragment: the bytes stay in the reassembly buffer */
				name[4] = "abcdefghijklmnopqrstuvwxyz0123456789"[cmc++ % 36];
				int k = ca_build_hostname(name + 5, sizeof(name) - 5, (const char *)payload, plen, dom, cenc[codec], L);
				uint8_t wire[300];
				int wl = rd_dotted_to_wire(name, (int)strlen(name), wire, sizeof wire);
				if (wl < 0) { viol("illegal-name", "chunk name for %d bytes (%s, L=%d, domain %s) is not a legal name", plen, CN[codec], L, dom); continue; }
				n = rd_mkquery(pkt, sizeof pkt, ++id & 0xffff ? id & 0xffff : ++id, wire, wl, 10, 0);
				adv_clear(); adv_send(&me, ml, pkt, n);
				xp_count(K_INGEST, 1);
				struct tun_user *u = &s_w_users()[0];
				if (u->inpacket.seqno != seq || u->inpacket.len != k || u->inpacket.offset != k || memcmp(u->inpacket.data, payload, k > 0 ? k : 0))
					viol("server-extracts-different-data", "data chunk carrying %d of %d bytes (%s, L=%d, domain of %d characters) through the real server loop: the session's reassembly buffer holds %d bytes (upstream seq %d, expected %d)%s",
					     k, plen, CN[codec], L, (int)strlen(dom), u->inpacket.seqno == seq ? u->inpacket.len : 0, u->inpacket.seqno, seq, (u->inpacket.seqno == seq && u->inpacket.len == k) ? ", different bytes" : "");
				if (!vw_alive(0)) { viol("server-exited", "server ended after a data chunk"); return; }
			}
		}
	}
	xp_outcome(0xC0800 + codec);
	if (codec == 3) xp_sample("real server loop: data chunks of every length 1..capacity+1 built by build_hostname() (%s, three domains, L in {255,100,180}, two contents) fed to a logged-in session; the reassembly buffer must hold the reported prefix", CN[codec]);
}

/* job = (L index) ; inside: all domain lengths, codecs, hdr, payload lengths */
static int Ls[200], nL;
static void job(int j)
{
	if (j >= nL) { ingest_job(j - nL); return; }
	int L = Ls[j];
	int maxd = L - 24 < 128 ? L - 24 : 128;
	char domain[200], srvdomain[200];
	static unsigned char payload[3000];
	int qd[] = { 3, 4, 5, 31, 63, 64, 65, 100, maxd - 1, maxd };
	for (int dl = 3; dl <= maxd; dl++) {
		if (xp_expired()) { __atomic_fetch_add(&XS->incomplete, 1, __ATOMIC_RELAXED); return; }
		if (!thorough) { int ok = 0; for (unsigned i = 0; i < sizeof qd / sizeof qd[0]; i++) if (qd[i] == dl) ok = 1; if (!ok) continue; }
		for (int shape = 0; shape < 2; shape++) {
			mkdomain(domain, dl, shape);
			if ((int)strlen(domain) != dl) continue;
			char *em = NULL;
			if (ca_check_topdomain(domain, 0, &em)) continue;      /* only valid domains are in the property */
			xp_count(K_GRID, 1);
			/* server side serves it either literally or (shape 1) through a wildcard for the first label */
			snprintf(srvdomain, sizeof srvdomain, "%s", domain);
			if (shape == 1) {
				char *dot = strchr(domain, '.');
				if (dot && strchr(dot + 1, '.')) { snprintf(srvdomain, sizeof srvdomain, "*%s", dot); if (s_check_topdomain(srvdomain, 1, &em)) snprintf(srvdomain, sizeof srvdomain, "%s", domain); }
			}
			/* domains are case-insensitive: the two ends need not spell theirs alike */
			if (dl % 2) for (int i = 0; srvdomain[i]; i += 2) srvdomain[i] = toupper((unsigned char)srvdomain[i]);
			if (dl % 3 == 0) for (int i = 1; domain[i]; i += 2) domain[i] = toupper((unsigned char)domain[i]);
			for (int codec = 0; codec < 4; codec++) {
				int cap = (L - dl) * (codec == 0 ? 5 : codec == 3 ? 7 : 6) / 8 + 3;
				for (int hdr = 1; hdr <= 5; hdr += 4) {
					for (int content = 0; content < 3; content++) {
						for (int plen = 1; plen <= cap + 1; plen++) {
							if (content && plen > 8 && plen < cap - 12) continue;   /* 00-content runs every length; ff and counter the boundary lengths */
							for (int i = 0; i < plen; i++) payload[i] = content == 0 ? 0x00 : content == 1 ? 0xFF : (unsigned char)(i * 7 + 1);
							one_build(L, domain, srvdomain, codec, hdr, payload, plen, content);
						}
						for (int i = 0; i < 2048; i++) payload[i] = content == 0 ? 0x00 : content == 1 ? 0xFF : (unsigned char)(i * 7 + 1);
						one_build(L, domain, srvdomain, codec, hdr, payload, 2048, content);
					}
				}
				if (thorough || shape == 0 || dl == maxd || dl == 3) builders(L, domain, srvdomain, codec);
			}
		}
	}
	xp_sample("L=%d: domain lengths %s3..%d (two label shapes, wildcard-served for the short-label shape) x 4 codecs x header 1/5 x payload 1..capacity+4 and 2048 x 3 contents; builders send_chunk/ping/version/login/set_fragsize/fragsize_probe",
		  L, thorough ? "" : "{3,4,5,31,63,64,65,100,max-1,max} of ", maxd);
}

int main(int argc, char **argv)
{
	hc_args a = hc_parse(argc, argv, "C08");
	thorough = a.thorough;
	vw_init();
	W.hooks.on_send = on_send;
	vw_sock_open(1, 21, "198.51.100.7", 40000);
	cenc[0] = &ca_base32_ops; cenc[1] = &ca_base64_ops; cenc[2] = &ca_base64u_ops; cenc[3] = &ca_base128_ops;
	senc[0] = &s_base32_ops; senc[1] = &s_base64_ops; senc[2] = &s_base64u_ops; senc[3] = &s_base128_ops;
	if (thorough) for (int L = 100; L <= 255; L++) Ls[nL++] = L;
	else for (int L = 100; L <= 255; L++) if (L <= 102 || L >= 253 || (L % 7) == 0 || (L >= 127 && L <= 129) || (L >= 151 && L <= 153)) Ls[nL++] = L;
	xp_init("C08", a.tier, 1024, a.budget_s);
	xp_guard("!C08", NULL, 0);
	if (a.replay) { job(xp_load_replay(a.replay)); return 0; }
	hc_quiet();
	xp_run_jobs(nL + 4, job, a.workers);
	char extra[300];
	snprintf(extra, sizeof extra, "\"builds\":%ld,\"truncating_builds\":%ld,\"builder_messages\":%ld,\"grid_cells\":%ld,\"chunks_through_server_loop\":%ld",
		 XS->counters[K_BUILDS], XS->counters[K_TRUNC], XS->counters[K_BUILDERS], XS->counters[K_GRID], XS->counters[K_INGEST]);
	xp_print_stats(extra);
	return 0;
}
