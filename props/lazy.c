/* C14 (no unsolicited or surplus answers, at most two held queries) and C16 (re-delivered
 * queries are never processed twice): E-B search against the real server loop with one
 * established session.  The harness is the client: it sends new pings / data fragments with
 * fresh counters, re-delivers earlier queries in several disguises, lets packets arrive on
 * the server's tun, lets time pass, switches lazy mode, logs in raw.
 * ./lazy --prop C14|C16 --tier quick|thorough                    DESIGN.md 2, C14 / C16 */
#include <ctype.h>
#include <stddef.h>
#include "harness_common.h"
#include "vw.h"
#include "explore.h"
#include "images.h"
#include "refmd5.h"
#include "refdns.h"
#include "adv.h"
#include "tmsg.h"
#include "eb.h"
#include "srvstate.h"

IMG_SERVER(s)
#include "downdec.h"

static const char *PROP = "C14";
static int is10, is14, is15, is16, thorough;
static const char *DOM = "t.example.com";
static const char *PW = "sesame";
static unsigned char pw32[33];
static const int QTYPES[7] = { 10, 65399, 16, 33, 15, 5, 1 };
static const char *QTN[7] = { "NULL", "PRIVATE", "TXT", "SRV", "MX", "CNAME", "A" };

enum { K_LETTERS, K_QUERIES, K_ANSWERS, K_DUPS, K_CACHE_EXPECTED, K_CACHE_SAME, K_POS_CHECKS, K_MAXPEND, K_TUNW, K_DATA_ANS, K_HELD2, K_SAN = 20 };

/* ---------------------------------------------------------------- alphabet */
enum { L_PING, L_DATA_FIRST, L_DATA_LAST, L_DUP, L_TUN, L_TIME, L_RAWLOGIN, L_LAZY, L_SETFRAG, L_RELOGIN, L_RAWPING, L_RAWDATA, L_HSDUP, L_NSA };
enum { V_SAME, V_NEWID, V_NEWSRC, V_UPPER, V_OTHERTYPE };
typedef struct letter { int kind, a, b; char name[40]; } letter;
static letter LT[128]; static int nlt, nlt_all;      /* letters [nlt, nlt_all) are used by warm-ups only */
static void addl(int kind, int a, int b, const char *fmt, ...)
{
	letter *l = &LT[nlt++]; l->kind = kind; l->a = a; l->b = b;
	va_list ap; va_start(ap, fmt); vsnprintf(l->name, sizeof l->name, fmt, ap); va_end(ap);
}
static void mk_alphabet(void)
{
	static const char *VN[] = { "same", "newid", "newsrc", "upper" };
	static const int KS[] = { 0, 1, 2, 4 };
	if (is15) {
		/* C15: fragment-size requests at any point of a downstream transfer, acks that arrive or not */
		static const int FS[] = { 200, 100, 50, 3, 2, 1, 0 };
		addl(L_PING, 0, 0, "ping(ack)");
		addl(L_PING, 1, 0, "ping(stale ack)");
		addl(L_DATA_LAST, 0, 0, "data(last)");
		addl(L_TUN, 60, 0, "tun(60B)");
		addl(L_TUN, 260, 0, "tun(260B)");
		for (int i = 0; i < 7; i++) addl(L_SETFRAG, FS[i], 0, "N(%d)", FS[i]);
		/* beyond what one answer buffer holds: the 4094-byte cap of the sender then cuts the fragment, not the negotiated size */
		addl(L_SETFRAG, 5000, 0, "N(5000)");
		addl(L_TUN, 4600, 0, "tun(4600B)");      /* compresses to about 4 610 bytes: more than one answer carries, less than the size asked for */
		addl(L_DUP, 0, V_NEWID, "redeliver(0 back,newid)");
		addl(L_TIME, 1000, 0, "+1s");
		/* the session goes silent for 61 s and a new session (version, login, lazy switch; no size request yet) takes
		 * over its slot: the limit in force for the new session is the default again */
		addl(L_RELOGIN, 0, 0, "idle61s+newsession");
		/* a late duplicate of the session's own (valid) login query: the login is acknowledged again, the settings the session
		 * has negotiated since stay as they are (seeded C15-i: the default size re-applied at every accepted login) */
		addl(L_HSDUP, 0, 0, "redeliver(login)"); addl(L_HSDUP, 1, 0, "redeliver(login,newid)");
		/* older queries re-delivered with a fresh id: enabled in the warmed-up start states (answer cache wrapped) */
		for (int k = 1; k <= 4; k++) addl(L_DUP, k, V_NEWID, "redeliver(%d back,newid)", k);
		nlt_all = nlt;
		addl(L_TUN, 1000, 0, "tun(1000B)"); { int t = nlt; nlt = nlt_all; nlt_all = t; }
		return;
	}
	addl(L_PING, 0, 0, "ping");
	addl(L_DATA_FIRST, 0, 0, "data(first,more)");
	addl(L_DATA_LAST, 0, 0, "data(last)");
	/* first delivery through a relay that upper-cases the name (0x20-style); the harness remembers the lower-case original */
	if (is16) addl(L_DATA_LAST, 1, 0, "data(last,upper)");
	/* the same without letting the server's 20 ms 'answer real soon' timer run before the next letter: a relay's retry, a tun packet
	 * or another query can then arrive inside that window (the +20ms letter lets the timer fire) */
	addl(L_DATA_LAST, 0, 1, "data(last,next letter within 20 ms)");
	for (int k = 0; k < 4; k++) for (int v = 0; v < 4; v++) {
		if (KS[k] == 2 && v != V_SAME && v != V_NEWID) continue;
		addl(L_DUP, KS[k], v, "redeliver(%d back,%s)", KS[k], VN[v]);
	}
	/* the same name asked with another record type (NULL <-> TXT), fresh id, from the second port: not a repeat but a query of its own,
	 * which must get its own answer with its own type */
	if (!is16) for (int k = 0; k < 2; k++) addl(L_DUP, k, V_OTHERTYPE, "redeliver(%d back,other record type)", k);
	/* C16: every query the server can still remember (30 pings / 15 data): enabled once the session is that old,
	 * i.e. in the warmed-up start states */
	if (is16) for (int k = 5; k < 30; k++) { addl(L_DUP, k, V_SAME, "redeliver(%d back,same)", k); addl(L_DUP, k, V_NEWID, "redeliver(%d back,newid)", k); }
	addl(L_TUN, 60, 0, "tun(60B)");
	addl(L_TUN, 260, 0, "tun(260B)");
	addl(L_TIME, 20, 0, "+20ms");
	addl(L_TIME, 1000, 0, "+1s");
	addl(L_RAWLOGIN, 0, 0, "rawlogin");
	/* after the raw login: raw frames from another port of the same address, while DNS-mode queries of the session keep coming */
	addl(L_RAWPING, 0, 0, "rawping(port2)");
	addl(L_RAWDATA, 0, 0, "rawdata(port2)");
	addl(L_LAZY, 1, 0, "lazy-on");
	addl(L_LAZY, 0, 0, "lazy-off");
	/* a fragment-size request in mid-session (a relay re-delivering the handshake's, or a client re-probing): the server
	 * deliberately empties its answer cache then, and nothing else */
	addl(L_SETFRAG, 100, 0, "N(100)");
	/* what a resolver asks after the server's NS answer: the address of ns.<domain> (and www.<domain>), from a third party.
	 * One query, at most one answer (seeded C14-j: the special case falling through into the tunnel request handler) */
	if (is14 || is10) { addl(L_NSA, 0, 0, "A?(ns.<domain>)"); addl(L_NSA, 1, 0, "A?(www.<domain>)"); }
	nlt_all = nlt;
}

/* ---------------------------------------------------------------- harness-side client model */
#define HIST 32
typedef struct sent { int used; int len; int isdata; uint8_t pkt[400]; } sent;
typedef struct pend { int used; struct sockaddr_storage src; int id, qtype, qnlen; uint8_t qname[256]; } pend;
typedef struct cachee { int used; int qtype, qnlen; uint8_t qname[256]; int plen; uint8_t payload[300]; } cachee;
#define NPEND 24
typedef struct model {
	int qt;                         /* query type of this session */
	int cmc, datacmc, idseq;
	int up_seq, up_frag, up_open;   /* upstream packet in progress */
	int dn_seq, dn_frag;            /* last downstream fragment seen (acked by the next query) */
	sent hist[HIST];                /* most recent first */
	pend pending[NPEND];
	cachee cache[4]; int cache_next;
	uint32_t seed;
	int rawed;
	int npkt;
	int lazy, relogins, warm;
	int uid;                        /* the session's slot / userid (0, or 10 in the 'eleventh client' start states) */
	uint8_t login_pkt[400]; int login_len;   /* the session's login query as sent in the handshake (a relay may repeat it later) */
} model;
static model M;
static struct sockaddr_storage SRC_A, SRC_A2; static socklen_t SRCLEN;

static void viol(const char *what, const char *fmt, ...)
{
	if (hc_san_as) return;
	char detail[380], sig[120];
	va_list ap; va_start(ap, fmt); vsnprintf(detail, sizeof detail, fmt, ap); va_end(ap);
	snprintf(sig, sizeof sig, "%s:%s", PROP, what);
	xp_violation(sig, "%s", detail);
}
static void on_san(const char *sig) { if (hc_san_report(sig, 0, "the lazy-mode / re-delivery search")) return; xp_count(K_SAN, 1); }

#define FM_COUNT_FRAG() xp_count(K_DATA_ANS, 0)
#include "fragmon.h"

static struct tun_user *pristine;
static int snap_regions(vw_region *out, int max, char *note)
{
	struct tun_user *us = s_w_users();
	int n = 0, nu = s_w_created_users();
	unsigned mask = 0;
	for (int i = 0; i < nu && n < max - 1; i++) if (us[i].active) { out[n].p = &us[i]; out[n].n = sizeof us[i]; n++; mask |= 1u << i; }
	out[n].p = &M; out[n].n = sizeof M; n++;
	if (is15) { out[n].p = &FST[1]; out[n].n = sizeof FST[1]; n++; }
	memcpy(note, &mask, sizeof mask);
	return n;
}
static void snap_restored(const char *note)
{
	struct tun_user *us = s_w_users();
	unsigned mask; memcpy(&mask, note, sizeof mask);
	for (int i = 0; i < s_w_created_users(); i++) if (us[i].active && !(mask & (1u << i))) memcpy(&us[i], &pristine[i], sizeof us[i]);
}

/* ---------------------------------------------------------------- sending a query: bookkeeping for the monitors */
static void note_query(const struct sockaddr_storage *src, const uint8_t *pkt, int len)
{
	static rd_msg m; char err[128];
	if (rd_parse(pkt, len, &m, err) || m.qr) return;
	xp_count(K_QUERIES, 1);
	if (is15) c15_on_query(&m, 1);
	if (m.id == 0) return;                       /* ignored by design */
	for (int i = 0; i < NPEND; i++) if (!M.pending[i].used) {
		pend *p = &M.pending[i];
		memset(p, 0, sizeof *p);
		p->used = 1; memcpy(&p->src, src, sizeof p->src); p->id = m.id; p->qtype = m.qtype; p->qnlen = m.qnamelen; memcpy(p->qname, m.qname, m.qnamelen);
		return;
	}
	vw_fatal("pending table full");
}

static void remember(const uint8_t *pkt, int len, int isdata)
{
	memmove(&M.hist[1], &M.hist[0], sizeof(sent) * (HIST - 1));
	memset(&M.hist[0], 0, sizeof(sent));
	M.hist[0].used = 1; M.hist[0].len = len; M.hist[0].isdata = isdata; memcpy(M.hist[0].pkt, pkt, len);
}

typedef struct pos { int in_seq, in_frag, in_len, in_off; int out_seq, out_frag, out_off, out_sent, out_len; int q_next, q_filled; uint64_t inhash[2]; int resent; uint64_t settings[2], qmem[2], queue[2]; } pos;
static void get_pos(pos *p)
{
	struct tun_user *u = &s_w_users()[M.uid];
	memset(p, 0, sizeof *p);
	p->in_seq = u->inpacket.seqno; p->in_frag = u->inpacket.fragment; p->in_len = u->inpacket.len; p->in_off = u->inpacket.offset;
	p->out_seq = u->outpacket.seqno; p->out_frag = u->outpacket.fragment; p->out_off = u->outpacket.offset; p->out_sent = u->outpacket.sentlen; p->out_len = u->outpacket.len;
	p->q_next = u->outpacketq_nexttouse; p->q_filled = u->outpacketq_filled;
	h128 h; h128_init(&h);
	int n = u->inpacket.offset; if (n < 0) n = 0; if (n > (int)sizeof u->inpacket.data) n = sizeof u->inpacket.data;
	h128_update(&h, u->inpacket.data, n);
	h128_final(&h, p->inhash);
	/* everything else in the session record that describes the streams: re-send counter, settings, query memories and queue (seeded C16-i: a cache hit counted as a re-send of the fragment in flight, which the sender later
	 * takes for the sixth failed attempt and gives the packet up) */
	p->resent = u->outfragresent;
	h128_init(&h);
	h128_update(&h, &u->encoder, sizeof u->encoder); h128_update(&h, &u->downenc, 1); h128_update(&h, &u->fragsize, sizeof u->fragsize);
	h128_update(&h, &u->conn, sizeof u->conn); h128_update(&h, &u->lazy, sizeof u->lazy);
	h128_update(&h, &u->authenticated, sizeof u->authenticated); h128_update(&h, &u->authenticated_raw, sizeof u->authenticated_raw);
	h128_final(&h, p->settings);
	h128_init(&h);
	h128_update(&h, u->qmemping_cmc, sizeof u->qmemping_cmc); h128_update(&h, u->qmemping_type, sizeof u->qmemping_type); h128_update(&h, &u->qmemping_lastfilled, sizeof u->qmemping_lastfilled);
	h128_update(&h, u->qmemdata_cmc, sizeof u->qmemdata_cmc); h128_update(&h, u->qmemdata_type, sizeof u->qmemdata_type); h128_update(&h, &u->qmemdata_lastfilled, sizeof u->qmemdata_lastfilled);
	h128_final(&h, p->qmem); p->qmem[0] = p->qmem[1] = 0;      /* not compared: a repeat in other letter case is legitimately entered into the memory */
	h128_init(&h);
	for (int i = 0; i < u->outpacketq_filled && i < OUTPACKETQ_LEN; i++) {
		const struct packet *q = &u->outpacketq[(u->outpacketq_nexttouse + i) % OUTPACKETQ_LEN];
		int k = q->len < 0 ? 0 : q->len > (int)sizeof q->data ? (int)sizeof q->data : q->len;
		h128_update(&h, &q->len, sizeof q->len); h128_update(&h, q->data, k);
	}
	{ int k = u->outpacket.len < 0 ? 0 : u->outpacket.len > (int)sizeof u->outpacket.data ? (int)sizeof u->outpacket.data : u->outpacket.len; h128_update(&h, u->outpacket.data, k); }
	h128_final(&h, p->queue);
}

static int qname_eq(const uint8_t *a, int al, const uint8_t *b, int bl) { return al == bl && !memcmp(a, b, al); }

/* examine everything the server emitted during this letter */
static int dup_answers; static uint8_t dup_payload[4200]; static int dup_plen;
static const struct sockaddr_storage *dup_src; static int dup_id;

static void inspect_outputs(const char *lname)
{
	for (int i = 0; i < adv_nout; i++) {
		adv_out *o = &adv_outs[i];
		if (o->kind == 3) { xp_count(K_TUNW, 1); continue; }
		if (o->kind != 0 && o->kind != 1) continue;
		if (o->full_len > o->len) vw_fatal("datagram of %d bytes does not fit the capture buffer", o->full_len);
		if (o->len >= 4 && o->data[0] == 0x10 && o->data[1] == 0xd1 && o->data[2] == 0x9e) continue;    /* raw frames are not DNS answers */
		static rd_msg m; char err[128];
		if (rd_parse(o->data, o->len, &m, err)) { if (is14) viol("unparsable-answer", "after %s the server emitted %d bytes that are not a DNS message: %s", lname, o->len, err); if (is10) viol("malformed-message", "after %s the server emitted %d bytes that are not a well-formed DNS message: %s", lname, o->len, err); continue; }
		if (!m.qr) continue;
		xp_count(K_ANSWERS, 1);
		int found = -1;
		for (int k = 0; k < NPEND; k++) {
			pend *p = &M.pending[k];
			if (p->used && p->id == m.id && p->qtype == m.qtype && qname_eq(p->qname, p->qnlen, m.qname, m.qnamelen) && vw_addr_eq(&p->src, &o->dst)) { found = k; break; }
		}
		if (found < 0) {
			char nm[300]; rd_name_to_dotted(m.qname, m.qnamelen, nm, sizeof nm); nm[36] = 0;
			if (is10) viol("answer-does-not-echo-question", "after %s the server sent an answer with id %d, type %d and question name %s.. to %s: no unanswered query from that address has that id, name and type", lname, m.id, m.qtype, nm, vw_addr_str(&o->dst));
			if (is14) viol("unsolicited-or-surplus-answer", "after %s the server sent an answer (id %d, type %d, name %s..) to %s that matches no received and still unanswered query", lname, m.id, m.qtype, nm, vw_addr_str(&o->dst));
			continue;
		}
		M.pending[found].used = 0;
		if (is15) c15_on_answer(&m, o->data, o->len, 1);
		static uint8_t pl[70000];
		int n = decode_downstream(&m, o->data, pl, sizeof pl);
		/* data-path answers: header with the compression bit, remember acks and the answer-cache model */
		int c = tolower(m.qname[1]);
		int datapath = (c == 'p' || isxdigit(c)) && n >= 2 && (pl[0] & 0x80);
		if (dup_src && m.id == dup_id && vw_addr_eq(&o->dst, dup_src)) { dup_answers++; dup_plen = n > (int)sizeof dup_payload ? (int)sizeof dup_payload : n; if (n > 0) memcpy(dup_payload, pl, dup_plen); }
		if (!datapath) continue;
		xp_count(K_DATA_ANS, 1);
		if (n > 2) { M.dn_seq = (pl[1] >> 5) & 7; M.dn_frag = (pl[1] >> 1) & 15; }
		/* answer-cache model: the last four distinct (name, type) answered on the data path */
		int known = 0;
		for (int k = 0; k < 4; k++) if (M.cache[k].used && M.cache[k].qtype == m.qtype && qname_eq(M.cache[k].qname, M.cache[k].qnlen, m.qname, m.qnamelen)) known = 1;
		if (!known && n <= (int)sizeof M.cache[0].payload) {
			cachee *e = &M.cache[M.cache_next++ & 3];
			memset(e, 0, sizeof *e);
			e->used = 1; e->qtype = m.qtype; e->qnlen = m.qnamelen; memcpy(e->qname, m.qname, m.qnamelen); e->plen = n; memcpy(e->payload, pl, n);
		}
	}
	if (adv_out_dropped) vw_fatal("adv output table overflow");
}

static void send_q(const struct sockaddr_storage *src, const uint8_t *pkt, int len)
{
	note_query(src, pkt, len);
	adv_send(src, SRCLEN, pkt, len);
}

static void handshake(void);
static void settle(void)
{
	if (vw_alive(0) && W.proc[0].deadline != VW_NEVER && W.proc[0].deadline - W.now <= 20000) { vw_run_until(W.proc[0].deadline); vw_run_quiescent(0); }
}

static int apply(int li)
{
	const letter *L = &LT[li];
	uint8_t pkt[800]; int plen = -1;
	pos before, after;
	int do_settle = 1;
	adv_clear();
	dup_src = NULL; dup_answers = 0; dup_plen = -1;
	switch (L->kind) {
	case L_PING:
		if (M.cmc > 0x7f00) return 1;
		plen = L->a ? tm_ping(pkt, ++M.idseq, M.qt, M.uid, (M.dn_seq + 3) & 7, 13, M.cmc++, DOM) : tm_ping(pkt, ++M.idseq, M.qt, M.uid, M.dn_seq, M.dn_frag, M.cmc++, DOM);
		remember(pkt, plen, 0);
		send_q(&SRC_A, pkt, plen);
		break;
	case L_DATA_FIRST: case L_DATA_LAST: {
		/* upstream packets: two fragments of a compressed IP packet for the server's tun, or a one-fragment packet */
		uint8_t ip[300], z[400];
		int last = L->kind == L_DATA_LAST;
		if (!last && M.up_open) return 1;            /* one packet in progress at a time, like the real client */
		int n = tm_ippkt(ip, 60, (0x0A000002u + (uint32_t)M.uid), 0xC0A80101u, 1000 + M.npkt);
		int zl = tm_compress(ip, n, z, sizeof z);
		int off = 0, len = zl;
		if (!M.up_open) { M.up_seq = (M.up_seq + 1) & 7; M.up_frag = 0; if (!last) { len = zl / 2; M.up_open = 1; } else M.npkt++; }
		else { M.up_frag++; off = zl / 2; len = zl - off; M.up_open = 0; M.npkt++; }
		plen = tm_data(pkt, ++M.idseq, M.qt, M.uid, M.up_seq, M.up_frag, M.dn_seq, M.dn_frag, last, "abcdefghijklmnopqrstuvwxyz0123456789"[M.datacmc++ % 36], REF_B32, z + off, len, DOM);
		remember(pkt, plen, 1);
		if (L->a) for (int k = 1; k <= pkt[12]; k++) pkt[12 + k] = toupper(pkt[12 + k]);
		send_q(&SRC_A, pkt, plen);
		if (L->b) do_settle = 0;
		break;
	}
	case L_DUP: {
		const sent *h = &M.hist[L->a];
		if (L->a >= HIST || !h->used) return 1;
		if (is15 && L->a >= 1 && !M.warm) return 1;
		memcpy(pkt, h->pkt, h->len); plen = h->len;
		const struct sockaddr_storage *src = &SRC_A;
		if (L->b == V_NEWID || L->b == V_NEWSRC) { int id = ++M.idseq; pkt[0] = id >> 8; pkt[1] = id; }
		if (L->b == V_NEWSRC) src = &SRC_A2;
		if (L->b == V_OTHERTYPE) {
			int id = ++M.idseq; pkt[0] = id >> 8; pkt[1] = id; src = &SRC_A2;
			int p = 12; while (p < plen && pkt[p]) p += 1 + pkt[p];
			if (p + 2 >= plen) return 1;
			int t = (pkt[p + 1] << 8) | pkt[p + 2], nt = t == 10 ? 16 : 10;
			pkt[p + 1] = nt >> 8; pkt[p + 2] = nt;
		}
		if (L->b == V_UPPER) { for (int p = 12; pkt[p]; p += 1 + pkt[p]) { for (int k = 1; k <= pkt[p]; k++) pkt[p + k] = toupper(pkt[p + k]); break; } }
		xp_count(K_DUPS, 1);
		get_pos(&before);
		dup_src = src; dup_id = (pkt[0] << 8) | pkt[1];
		/* is the original's answer in the server's answer cache (per the model) and the repeat byte-identical in name and type? */
		static rd_msg m; char err[128];
		int expect_cached = -1;
		if (!rd_parse(pkt, plen, &m, err))
			for (int k = 0; k < 4; k++) if (M.cache[k].used && M.cache[k].qtype == m.qtype && qname_eq(M.cache[k].qname, M.cache[k].qnlen, m.qname, m.qnamelen)) expect_cached = k;
		/* a timer about to fire (the 20 ms 'answer real soon' one) is not part of the re-delivery: when one is pending, the repeat is
		 * judged on what the server does with it before the timer runs, and the timer's own answers are looked at afterwards */
		int timer_pending = vw_alive(0) && W.proc[0].deadline != VW_NEVER && W.proc[0].deadline - W.now <= 20000;
		send_q(src, pkt, plen);
		if (!timer_pending) settle();
		do_settle = timer_pending;
		inspect_outputs(L->name);
		get_pos(&after);
		if (timer_pending) { adv_clear(); expect_cached = -1; }
		if (is16) {
			xp_count(K_POS_CHECKS, 1);
			/* a repeat that is not byte-identical in name and type (or whose answer has left the cache) is answered anew, and the
			 * fresh answer re-sends the fragment in flight - that counts as a re-send; only a repeat served from the answer
			 * cache must leave the counter alone */
			if (expect_cached < 0 || M.rawed) after.resent = before.resent;
			if (memcmp(&before, &after, sizeof before))
				viol("redelivery-moved-the-stream", "%s: upstream position (seq %d frag %d len %d off %d) -> (%d %d %d %d), downstream (seq %d frag %d off %d sent %d len %d, queue %d+%d) -> (%d %d %d %d %d, %d+%d)%s", L->name,
				     before.in_seq, before.in_frag, before.in_len, before.in_off, after.in_seq, after.in_frag, after.in_len, after.in_off,
				     before.out_seq, before.out_frag, before.out_off, before.out_sent, before.out_len, before.q_next, before.q_filled,
				     after.out_seq, after.out_frag, after.out_off, after.out_sent, after.out_len, after.q_next, after.q_filled,
				     memcmp(before.inhash, after.inhash, 16) ? ", reassembled bytes changed" : before.resent != after.resent ? ", re-send counter of the fragment in flight changed" : memcmp(before.settings, after.settings, 16) ? ", session settings changed" : memcmp(before.queue, after.queue, 16) ? ", queued downstream data changed" : "");
			if (expect_cached >= 0 && !M.rawed) {
				xp_count(K_CACHE_EXPECTED, 1);
				cachee *e = &M.cache[expect_cached];
				if (dup_answers != 1) viol("cached-repeat-not-answered-once", "%s: the original answer is among the last four but the repeat got %d answers", L->name, dup_answers);
				else if (dup_plen != e->plen || memcmp(dup_payload, e->payload, e->plen)) viol("cached-repeat-answered-with-different-payload", "%s: repeat answered with %d payload bytes (header %02x %02x), original had %d (header %02x %02x)", L->name, dup_plen, dup_payload[0], dup_payload[1], e->plen, e->payload[0], e->payload[1]);
				else xp_count(K_CACHE_SAME, 1);
			}
		}
		if (do_settle) { settle(); inspect_outputs(L->name); }
		goto done;
	}
	case L_TUN: {
		static uint8_t ip[8200];
		int n = tm_ippkt(ip, L->a, 0xC0A80101u, (0x0A000002u + (uint32_t)M.uid), 2000 + M.npkt++);
		adv_tun_in(ip, n);
		break;
	}
	case L_TIME: adv_advance((int64_t)L->a * 1000); do_settle = 0; break;
	case L_RAWLOGIN: {
		uint8_t h[16];
		if (M.rawed) return 1;
		ref_login(pw32, M.seed + 1, h);
		plen = tm_raw(pkt, 0x10, M.uid, h, 16);
		adv_send(&SRC_A, SRCLEN, pkt, plen);
		M.rawed = 1;
		break;
	}
	case L_RAWPING:
		if (!M.rawed) return 1;
		plen = tm_raw(pkt, 0x30, M.uid, NULL, 0);
		adv_send(&SRC_A2, SRCLEN, pkt, plen);
		break;
	case L_RAWDATA: {
		uint8_t ip[100], z[200];
		if (!M.rawed) return 1;
		int n = tm_ippkt(ip, 40, (0x0A000002u + (uint32_t)M.uid), 0xC0A80101u, 3000 + M.npkt++);
		int zl = tm_compress(ip, n, z, sizeof z);
		plen = tm_raw(pkt, 0x20, M.uid, z, zl);
		adv_send(&SRC_A2, SRCLEN, pkt, plen);
		break;
	}
	case L_SETFRAG:
		/* a fragment size beyond what one CNAME/A answer can carry (about 140 bytes) is a user misconfiguration: the answer
		 * format silently truncates the fragment (see ea.c, exclude_oversized_fragsize); not part of the alphabet there */
		if ((M.qt == 5 || M.qt == 1) && L->a > 100) return 1;
		plen = tm_setfrag(pkt, ++M.idseq, M.qt, M.uid, L->a, M.cmc++, DOM);
		send_q(&SRC_A, pkt, plen);
		for (int k = 0; k < 4; k++) M.cache[k].used = 0;      /* "cached answers may hold fragments larger than the new size, do not repeat them" */
		break;
	case L_RELOGIN: {
		if (M.relogins >= 1) return 1;
		adv_advance(61000000);
		inspect_outputs(L->name);
		int lazy = M.lazy, cmc = M.cmc, idseq = M.idseq, qt = M.qt, npkt = M.npkt;
		memset(&M, 0, sizeof M); memset(&FST[1], 0, sizeof FST[1]);
		M.lazy = lazy; M.cmc = cmc; M.idseq = idseq; M.qt = qt; M.npkt = npkt; M.relogins = 1;
		handshake();           /* every slot has expired: the new session gets slot 0 (M.uid is 0 again) */
		if (s_w_users()[M.uid].seed != (int)M.seed) vw_fatal("new session did not take over slot 0");
		for (int i = 0; i < NPEND; i++) M.pending[i].used = 0;
		adv_clear();
		do_settle = 0;
		break;
	}
	case L_NSA: {
		char nm[300]; uint8_t wire[300];
		int l = snprintf(nm, sizeof nm, "%s.%s", L->a ? "www" : "ns", DOM);
		int wl = rd_dotted_to_wire(nm, l, wire, sizeof wire);
		plen = rd_mkquery(pkt, sizeof pkt, ++M.idseq, wire, wl, 1, 0);
		send_q(&SRC_A2, pkt, plen);
		break;
	}
	case L_HSDUP:
		if (M.login_len <= 0) return 1;
		plen = M.login_len; memcpy(pkt, M.login_pkt, plen);
		if (L->a) { ++M.idseq; pkt[0] = M.idseq >> 8; pkt[1] = M.idseq & 0xff; }
		send_q(&SRC_A, pkt, plen);
		break;
	case L_LAZY:
		plen = tm_short(pkt, ++M.idseq, M.qt, 'o', tm_5to8(M.uid), L->a ? 'l' : 'i', M.cmc++, DOM);
		send_q(&SRC_A, pkt, plen);
		M.lazy = L->a;
		break;
	}
	if (do_settle) settle();
	inspect_outputs(L->name);
done:
	xp_count(K_LETTERS, 1);
	if (!vw_alive(0)) { viol("server-exited", "server loop ended after %s", L->name); return 0; }
	/* C16: whatever upstream data query the session has sent recently must still be recognisable to the server, so that a relay's
	 * repeat of it can be told from new data: it is either waiting to be answered, or in the query memory (15 data queries), or in
	 * the answer cache.  A query that was consumed and then forgotten (seeded C16-j: a held data query overwritten by a ping that
	 * arrives inside the 20 ms window) would be appended again when it comes back after a few newer packets. */
	if (is16 && !M.rawed) {
		struct tun_user *u = &s_w_users()[M.uid];
		int seen_data = 0;
		for (int k = 0; k < HIST && seen_data < 12; k++) {
			const sent *h = &M.hist[k];
			if (!h->used || !h->isdata) continue;
			seen_data++;
			char dotted[300]; int dl = 0, pos = 12, ok = 1;
			while (pos < h->len && h->pkt[pos]) { int l = h->pkt[pos]; if (l > 63 || pos + 1 + l > h->len || dl + l + 1 >= (int)sizeof dotted) { ok = 0; break; } if (dl) dotted[dl++] = '.'; memcpy(dotted + dl, h->pkt + pos + 1, l); dl += l; pos += 1 + l; }
			if (!ok || pos + 2 >= h->len || dl < 5) continue;
			dotted[dl] = 0;
			int qtype = (h->pkt[pos + 1] << 8) | h->pkt[pos + 2];
			unsigned char cmc[4]; int dotin = 0;
			for (int i = 0; i < 4; i++) { cmc[i] = (unsigned char)tolower((unsigned char)dotted[1 + i]); if (dotted[1 + i] == '.') dotin = 1; }
			if (dotin) continue;
			int found = 0;
			if (u->q.id && !strcasecmp(u->q.name, dotted)) found = 1;
			if (u->q_sendrealsoon.id && !strcasecmp(u->q_sendrealsoon.name, dotted)) found = 1;
			for (int i = 0; i < QMEMDATA_LEN && !found; i++) if (u->qmemdata_type[i] == qtype && !memcmp(u->qmemdata_cmc + 4 * i, cmc, 4)) found = 1;
			for (int i = 0; i < DNSCACHE_LEN && !found; i++) if (u->dnscache_q[i].id && u->dnscache_q[i].type == qtype && !strcasecmp(u->dnscache_q[i].name, dotted)) found = 1;
			if (!found) { viol("data-query-forgotten", "after %s: the session's data query %.24s.. (%d queries back among its data queries) is neither waiting, nor in the query memory, nor in the answer cache: a repeat of it would be taken for new data", L->name, dotted, seen_data - 1); break; }
		}
	}
	/* C14: at rest, at most two distinct unanswered tunnel queries of the session */
	{
		int distinct = 0, idx[NPEND];
		for (int i = 0; i < NPEND; i++) {
			pend *p = &M.pending[i];
			if (!p->used) continue;
			int dupe = 0;
			for (int k = 0; k < distinct; k++) { pend *q = &M.pending[idx[k]]; if (q->qtype == p->qtype && qname_eq(q->qname, q->qnlen, p->qname, p->qnlen)) { dupe = 1; break; } }
			if (!dupe) idx[distinct++] = i;
		}
		if (distinct > XS->counters[K_MAXPEND]) XS->counters[K_MAXPEND] = distinct;
		if (distinct == 2) xp_count(K_HELD2, 1);
		/* (a session that has switched to raw UDP mode is no longer a lazy-mode DNS session: the raw login drops the
		 * query the server held, which the wire-level count cannot tell from holding it -- see DESIGN.md, log) */
		int at_rest = !(vw_alive(0) && W.proc[0].deadline != VW_NEVER && W.proc[0].deadline - W.now <= 20000);       /* no 'real soon' answer pending */
		if (is14 && distinct > 2 && !M.rawed && at_rest) {
			char nm[300]; rd_name_to_dotted(M.pending[idx[0]].qname, M.pending[idx[0]].qnlen, nm, sizeof nm); nm[30] = 0;
			viol("more-than-two-held-queries", "after %s the server is idle with %d distinct unanswered queries of the session (e.g. %s..)", L->name, distinct, nm);
		}
		xp_outcome(((uint64_t)L->kind << 40) ^ ((uint64_t)(L->b & 7) << 36) ^ ((uint64_t)distinct << 32) ^ ((uint64_t)adv_nout << 24) ^ ((uint64_t)(dup_answers & 3) << 20) ^ (uint64_t)M.qt);
	}
	return 0;
}

/* ---------------------------------------------------------------- state key */
static void key(uint64_t k[2])
{
	uint64_t w[2];
	h128 h;
	vw_hash_world(w, VW_HASH_COARSE_TIME);
	h128_init(&h);
	h128_update(&h, w, sizeof w);
	int64_t sub = W.now % 1000000;              /* +20 ms steps matter here: keep the sub-second clock */
	h128_update(&h, &sub, sizeof sub);
	ss_hash_users(&h, s_w_users(), s_w_created_users());
	h128_update(&h, &M, sizeof M);
	if (is15) {
		fragstate *f = &FST[1];
		h128_update(&h, f, offsetof(fragstate, lastfrag));
		h128_update(&h, &f->lastlen, sizeof f->lastlen); h128_update(&h, &f->lastflag, sizeof f->lastflag);
		if (f->lastlen > 0) h128_update(&h, f->lastfrag, f->lastlen > 4096 ? 4096 : f->lastlen);
		if (f->total > 0) h128_update(&h, f->asm_, f->total > (int)sizeof f->asm_ ? (int)sizeof f->asm_ : f->total);
	}
	h128_final(&h, k);
}
static const char *lname(int l) { return LT[l].name; }

/* ---------------------------------------------------------------- start states: type x lazy */
#define NSTART 25
/* 21..24: the session is the server's eleventh (userid 10, hex digit 'a' in data queries) behind ten parties that only sent a version request */
static const int SLOT_BASE[4] = { 0, 9, 14, 17 };
#define SLOT_INNER(st) ((st) >= 21 ? SLOT_BASE[(st) - 21] : (st))
#define IS_WARM(st) (SLOT_INNER(st) >= 14)
#define C15WARM(st) ((st) >= 17 && (st) <= 19)
#define C16WARM(st) (((st) >= 14 && (st) <= 16) || (st) == 20)
/* start states 14..16: warmed-up sessions (NULL lazy, NULL immediate, TXT lazy) */
static const int WARM_BASE[7] = { 0, 7, 2, /* C15 warm-ups: */ 0, 9, 4, /* C16 again: PRIVATE (type 65399), lazy */ 1 };
static void start_desc(int st00, char *b, size_t n)
{
	int st = SLOT_INNER(st00);
	int base = st >= 14 ? WARM_BASE[st - 14] : st;
	snprintf(b, n, "session %slogged in with -T %s, %s mode%s", st00 >= 21 ? "in slot 10 (ten other parties sent a version request first) " : "", QTN[base % 7], base < 7 ? "lazy" : "immediate",
		 C15WARM(st) ? ", warmed up: N(200), a 1000-byte packet on the server's tun, four fragments fetched and acknowledged (answer cache full and wrapped, fifth fragment outstanding)" :
		 st >= 14 ? ", warmed up: 17 idle pings, 7 one-fragment packets each way (both 3-bit sequence numbers about to wrap, 24+ pings in the server's query memory)" : "");
}
static int apply(int li);
static int letter_by_name(const char *n) { for (int i = 0; i < nlt_all; i++) if (!strcmp(LT[i].name, n)) return i; vw_fatal("no letter %s", n); }

static void expect_one(const char *what)
{
	settle();
	inspect_outputs(what);
	if (adv_nout < 1) vw_fatal("start state: no answer to %s", what);
}

static void handshake(void)
{
	uint8_t pkt[800]; int n;
	/* version, login, lazy switch: as the real client does */
	adv_clear(); n = tm_version(pkt, ++M.idseq, M.qt, 0x00000502, M.cmc++, DOM); send_q(&SRC_A, pkt, n);
	{
		static rd_msg m; static uint8_t pl[4096]; char err[128];
		if (adv_nout != 1 || rd_parse(adv_outs[0].data, adv_outs[0].len, &m, err)) vw_fatal("start state: no version answer");
		int k = decode_downstream(&m, adv_outs[0].data, pl, sizeof pl);
		if (k < 9 || memcmp(pl, "VACK", 4)) vw_fatal("start state: no VACK (decoded %d bytes)", k);
		M.seed = (pl[4] << 24) | (pl[5] << 16) | (pl[6] << 8) | pl[7];
		if (pl[8] != M.uid) vw_fatal("start state: the session got slot %d, expected %d", pl[8], M.uid);
	}
	expect_one("version");
	uint8_t h[16]; ref_login(pw32, M.seed, h);
	adv_clear(); n = tm_login(pkt, ++M.idseq, M.qt, M.uid, h, 16, M.cmc++, DOM); send_q(&SRC_A, pkt, n); expect_one("login");
	if (n <= (int)sizeof M.login_pkt) { memcpy(M.login_pkt, pkt, n); M.login_len = n; }
	if (!s_w_users()[M.uid].authenticated) vw_fatal("start state: login not accepted");
	if (M.lazy) { adv_clear(); n = tm_short(pkt, ++M.idseq, M.qt, 'o', tm_5to8(M.uid), 'l', M.cmc++, DOM); send_q(&SRC_A, pkt, n); expect_one("lazy switch"); }
}

static void boot(int st00)
{
	int st0 = SLOT_INNER(st00), uid = st00 >= 21 ? 10 : 0;
	int st = st0 >= 14 ? WARM_BASE[st0 - 14] : st0;
	struct w_server_cfg c = { .topdomain = DOM, .password = PW, .my_ip = "10.0.0.1", .netmask = uid ? 27 : 29, .mtu = 1130, .check_ip = 1, .srand_seed = 1 };
	uint8_t pkt[800]; int n;
	vw_init();
	IMG_REGISTER(s);
	W.hooks.on_sanitizer = on_san;
	W.hooks.snap_regions = snap_regions; W.hooks.snap_restored = snap_restored;
	memset(&M, 0, sizeof M); memset(FST, 0, sizeof FST);
	M.qt = QTYPES[st % 7]; M.cmc = 0x100; M.idseq = 0x200;
	adv_boot(&c, 0, 0);
	if (!pristine) pristine = malloc(sizeof *pristine * s_w_created_users());
	memcpy(pristine, s_w_users(), sizeof *pristine * s_w_created_users());
	M.lazy = st < 7;
	for (int i = 0; i < uid; i++) {
		struct sockaddr_storage fa; socklen_t fl; char ip[32];
		snprintf(ip, sizeof ip, "203.0.113.%d", 10 + i); vw_mkaddr(&fa, &fl, ip, 41000 + i);
		n = tm_version(pkt, 0x3300 + i, M.qt, 0x00000502, 0x77 + i, DOM);
		adv_send(&fa, fl, pkt, n); settle(); adv_clear();
	}
	M.uid = uid;
	handshake();
	for (int i = 0; i < NPEND; i++) if (M.pending[i].used) vw_fatal("start state: handshake query left unanswered");
	adv_clear();
	if (C15WARM(st0)) {
		int ln = letter_by_name("N(200)"), lt = letter_by_name("tun(1000B)"), lp = letter_by_name("ping(ack)");
		apply(ln); apply(lt);
		for (int i = 0; i < 4; i++) apply(lp);
		struct tun_user *u = &s_w_users()[M.uid];
		if (u->outpacket.len <= 0 || u->outpacket.fragment < 3) vw_fatal("C15 warm-up did not leave a packet in flight (len %d frag %d)", u->outpacket.len, u->outpacket.fragment);
		M.warm = 1;
		adv_clear();
	} else if (st0 >= 14) {
		int lp = letter_by_name("ping"), lt = letter_by_name("tun(60B)"), ld = letter_by_name("data(last)");
		for (int i = 0; i < 17; i++) apply(lp);
		for (int i = 0; i < 7; i++) { apply(lt); apply(lp); }
		int ldu = is16 ? letter_by_name("data(last,upper)") : ld;
		for (int i = 0; i < 7; i++) apply((i & 1) ? ldu : ld);
		apply(lp);
		struct tun_user *u = &s_w_users()[M.uid];
		if (u->outpacket.seqno != 7 || u->inpacket.seqno != 7) vw_fatal("warm-up did not park the sequence numbers (down %d up %d)", u->outpacket.seqno, u->inpacket.seqno);
		adv_clear();
	}
}

static eb_ops OPS;
static void job(int j)
{
	int st = j / nlt, l0 = j % nlt;
	boot(st);
	XC.path[0].cp = 0; XC.path[0].alt = l0; XC.npath = 1; XC.depth = 1;
	if (apply(l0) == 0) {
		uint64_t k[2];
		__atomic_fetch_add(&XS->transitions, 1, __ATOMIC_RELAXED);
		key(k);
		if (xp_visit(k, 1)) eb_dfs_snap(&OPS, 1);
	}
	__atomic_fetch_add(&XS->execs, 1, __ATOMIC_RELAXED);
}
static int STARTS[NSTART], nstarts;
static int base_depth;
static void jobn(int j) { XC.job = STARTS[j / nlt] * nlt + j % nlt; OPS.maxdepth = IS_WARM(STARTS[j / nlt]) ? base_depth - 2 : base_depth; job(XC.job); }
static void describe_job(int j, char *b, size_t n) { char d[300]; start_desc(j / nlt, d, sizeof d); snprintf(b, n, "%s; first letter %s", d, LT[j % nlt].name); }

int main(int argc, char **argv)
{
	hc_args a = hc_parse(argc, argv, "lazy");
	int depth = 0;
	for (int i = 0; i < a.nextra; i++) {
		if (!strcmp(a.extra[i], "--prop") && i + 1 < a.nextra) PROP = a.extra[++i];
		else if (!strcmp(a.extra[i], "--depth") && i + 1 < a.nextra) depth = atoi(a.extra[++i]);
	}
	is10 = !strcmp(PROP, "C10"); is14 = !strcmp(PROP, "C14"); is15 = !strcmp(PROP, "C15"); is16 = !strcmp(PROP, "C16"); thorough = a.thorough;
	memset(pw32, 0, sizeof pw32); strcpy((char *)pw32, PW);
	vw_mkaddr(&SRC_A, &SRCLEN, "198.51.100.7", 4000);
	vw_mkaddr(&SRC_A2, &SRCLEN, "198.51.100.7", 4777);       /* a second relay port at the same address (passes the source check) */
	mk_alphabet();
	OPS.nletters = nlt; OPS.apply = apply; OPS.key = key; OPS.name = lname;
	OPS.maxdepth = depth ? depth : thorough ? 5 : 4;
	base_depth = OPS.maxdepth;
	xp_describe_job = describe_job;
	xp_init(hc_san_as ? hc_san_as : PROP, a.tier, a.thorough ? 1 << 26 : 1 << 24, a.budget_s);
	xp_guard(hc_san_as, &W.cur, 1);
	if (a.replay) {
		int j = xp_load_replay(a.replay);
		boot(j / nlt);
		eb_replay(&OPS, a.verbose);
		return 0;
	}
	hc_quiet();
	if (thorough) for (int s = 0; s < 14; s++) STARTS[nstarts++] = s;
	else { int q[] = { 0, 7, 2, 5, 4, 1 }; for (int i = 0; i < (is16 ? 6 : 5); i++) STARTS[nstarts++] = q[i]; }
	/* warmed-up sessions: C16 only (re-delivery of everything the server remembers), one level shallower */
	int nplain = nstarts;
	if (is16) for (int s = 14; s < 17; s++) STARTS[nstarts++] = s;
	if (is15) for (int s = 17; s <= 19; s++) STARTS[nstarts++] = s;
	if (is16) STARTS[nstarts++] = 20;
	/* the same session as the server's eleventh client */
	STARTS[nstarts++] = 21;
	if (thorough || is10 || is14) STARTS[nstarts++] = 22;
	if (is16) STARTS[nstarts++] = 23;
	if (is15) STARTS[nstarts++] = 24;
	xp_run_jobs(nstarts * nlt, jobn, a.workers);
	{ char names[3000] = ""; for (int i = 0; i < nlt && i < 40; i++) { strcat(names, LT[i].name); strcat(names, i + 1 < nlt ? " | " : ""); } xp_sample("alphabet (%d letters): %s", nlt, names); }
	(void)nplain;
	for (int i = 0; i < nstarts && i < 8; i++) { char d[300]; start_desc(STARTS[i], d, sizeof d); xp_sample("start state: %s", d); }
	char extra[500];
	snprintf(extra, sizeof extra, "\"letters\":%d,\"depth\":%d,\"start_states\":%d,\"letters_applied\":%ld,\"queries_sent\":%ld,\"answers_seen\":%ld,\"redeliveries\":%ld,\"cache_repeats_expected\":%ld,\"cache_repeats_identical\":%ld,\"position_checks\":%ld,\"max_pending\":%ld,\"tun_writes\":%ld,\"data_answers\":%ld,\"rest_states_with_two_held\":%ld,\"sanitizer_notes\":%ld",
		 nlt, OPS.maxdepth, nstarts, XS->counters[K_LETTERS], XS->counters[K_QUERIES], XS->counters[K_ANSWERS], XS->counters[K_DUPS], XS->counters[K_CACHE_EXPECTED], XS->counters[K_CACHE_SAME], XS->counters[K_POS_CHECKS], XS->counters[K_MAXPEND], XS->counters[K_TUNW], XS->counters[K_DATA_ANS], XS->counters[K_HELD2], XS->counters[K_SAN]);
	xp_print_stats(extra);
	return 0;
}
