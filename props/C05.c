/* C05: the server survives arbitrary datagrams (memory safety, termination, keeps serving).
 * E-B with the sanitizers as oracle: complete finite families of malformed DNS messages, tunnel
 * commands with hostile fields, raw frames and tun frames are delivered to the real server loop
 * (ASan+UBSan build, forwarding on, IPv4+IPv6 sockets) in each of six session states, singly and
 * in all ordered pairs of class representatives.  After every datagram: no sanitizer report,
 * server still in select(), no CPU-time overrun; after every batch a pre-established other
 * session completes a ping, an upstream packet and a downstream packet.
 * ./C05 --tier quick|thorough                                          DESIGN.md 2, C05 */
#include <ctype.h>
#include <signal.h>
#include <sys/time.h>
#include "harness_common.h"
#include "vw.h"
#include "explore.h"
#include "images.h"
#include "refmd5.h"
#include "refdns.h"
#include "adv.h"
#include "tmsg.h"

IMG_SERVER(s)
#include "downdec.h"

static int thorough;
static const char *DOM = "t.example.com";
static const char *PW = "sesame";
static unsigned char pw32[33];
enum { K_DGRAMS, K_PROBES, K_ANSWERED, K_TUNW, K_PAIRS, K_TUNFRAMES, K_SAN = 20 };

static struct sockaddr_storage A_ADDR, B_ADDR, C_ADDR, X_ADDR, X6_ADDR, LOCALDNS; static socklen_t ALEN, A6LEN;
static char cur_desc[200];
static int cur_state;
static const char *STATE_DESC[6] = { "only the probe session B exists", "A has sent a version request", "A is logged in", "A is logged in, lazy, with a held ping",
	"A is in the middle of an upstream packet", "A has switched to raw UDP mode" };

static void viol(const char *what, const char *fmt, ...)
{
	char detail[380], sig[160];
	va_list ap; va_start(ap, fmt); vsnprintf(detail, sizeof detail, fmt, ap); va_end(ap);
	snprintf(sig, sizeof sig, "C05:%s", what);
	xp_violation(sig, "%s", detail);
}

static int san_hits;
static void on_san(const char *sig)
{
	san_hits++;
	xp_count(K_SAN, 1);
	char what[150]; snprintf(what, sizeof what, "sanitizer:%s", sig);
	viol(what, "state '%s', datagram: %s", STATE_DESC[cur_state], cur_desc);
}

static void on_alarm(int sig)
{
	(void)sig;
	viol("not-processed-in-bounded-time", "state '%s': the server did not return to select() within 20 s of its own CPU time after: %s", STATE_DESC[cur_state], cur_desc);
	_exit(0);
}

/* ---------------------------------------------------------------- delivering */
static int dead_reported;
static void after_delivery(void)
{
	xp_count(K_DGRAMS, 1);
	for (int i = 0; i < adv_nout; i++) { if (adv_outs[i].kind == 3) xp_count(K_TUNW, 1); else if (adv_outs[i].kind <= 1) xp_count(K_ANSWERED, 1); }
	if (!vw_alive(0) && !dead_reported) { dead_reported = 1; viol("server-exited", "state '%s': the server loop ended (exit code %d) after: %s", STATE_DESC[cur_state], W.proc[0].exit_code, cur_desc); }
	if (vw_alive(0) && W.proc[0].deadline != VW_NEVER && W.proc[0].deadline - W.now <= 20000) { vw_run_until(W.proc[0].deadline); vw_run_quiescent(0); }
}

static void deliver(const struct sockaddr_storage *src, const unsigned char *d, int len, const char *fmt, ...)
{
	va_list ap; va_start(ap, fmt); vsnprintf(cur_desc, sizeof cur_desc, fmt, ap); va_end(ap);
	if (!vw_alive(0)) return;
	adv_clear();
	adv_send(src, src->ss_family == AF_INET6 ? A6LEN : ALEN, d, len);
	after_delivery();
}

static void deliver_tun(const unsigned char *d, int len, const char *fmt, ...)
{
	va_list ap; va_start(ap, fmt); vsnprintf(cur_desc, sizeof cur_desc, fmt, ap); va_end(ap);
	if (!vw_alive(0)) return;
	adv_clear();
	adv_tun_in(d, len);
	xp_count(K_TUNFRAMES, 1);
	after_delivery();
}

/* ---------------------------------------------------------------- probe session B (slot 0, immediate mode) */
static int b_cmc = 0x3000, b_id = 0x4000, b_upseq, b_dnseq, b_dnfrag;
static int probe_failed;

static int b_answer(const uint8_t **pl, rd_msg *m)
{
	for (int i = 0; i < adv_nout; i++) if (adv_outs[i].kind == 0 && vw_addr_eq(&adv_outs[i].dst, &B_ADDR)) { int n = tm_null_payload(adv_outs[i].data, adv_outs[i].len, pl, m); if (n >= 0) return n; }
	return -1;
}

/* the session records themselves: cursors and counters stay inside their buffers (an overflow inside the one big users[]
 * allocation is invisible to the sanitizer) */
static void check_user_invariants(void)
{
	struct tun_user *us = s_w_users(); int nu = s_w_created_users();
	for (int i = 0; i < nu; i++) {
		struct tun_user *u = &us[i];
		const char *bad = NULL; long val = 0;
		int cap = (int)sizeof u->inpacket.data;
		if (u->inpacket.len < 0 || u->inpacket.len > cap) { bad = "inpacket.len"; val = u->inpacket.len; }
		else if (u->inpacket.offset < 0 || u->inpacket.offset > cap) { bad = "inpacket.offset"; val = u->inpacket.offset; }
		else if (u->outpacket.len < 0 || u->outpacket.len > cap) { bad = "outpacket.len"; val = u->outpacket.len; }
		else if (u->outpacket.offset < 0 || u->outpacket.offset > cap) { bad = "outpacket.offset"; val = u->outpacket.offset; }
		else if (u->outpacket.sentlen < 0 || u->outpacket.sentlen > cap) { bad = "outpacket.sentlen"; val = u->outpacket.sentlen; }
		else if (u->outpacketq_filled < 0 || u->outpacketq_filled > OUTPACKETQ_LEN) { bad = "outpacketq_filled"; val = u->outpacketq_filled; }
		else if (u->outpacketq_nexttouse < 0 || u->outpacketq_nexttouse >= OUTPACKETQ_LEN) { bad = "outpacketq_nexttouse"; val = u->outpacketq_nexttouse; }
		else if (u->inpacket.seqno < 0 || u->inpacket.seqno > 7 || u->outpacket.seqno < 0 || u->outpacket.seqno > 7) { bad = "sequence number"; val = u->inpacket.seqno * 256 + u->outpacket.seqno; }
		else if (u->qmemping_lastfilled < 0 || u->qmemping_lastfilled >= QMEMPING_LEN) { bad = "qmemping_lastfilled"; val = u->qmemping_lastfilled; }
		else if (u->qmemdata_lastfilled < 0 || u->qmemdata_lastfilled >= QMEMDATA_LEN) { bad = "qmemdata_lastfilled"; val = u->qmemdata_lastfilled; }
		else if (u->dnscache_lastfilled < 0 || u->dnscache_lastfilled >= DNSCACHE_LEN) { bad = "dnscache_lastfilled"; val = u->dnscache_lastfilled; }
		else if (u->fragsize < 0 || u->fragsize > 65535) { bad = "fragsize"; val = u->fragsize; }
		else if (u->outfragresent < 0 || u->outfragresent > 7) { bad = "outfragresent"; val = u->outfragresent; }
		else for (int k = 0; k < OUTPACKETQ_LEN && !bad; k++) if (u->outpacketq[k].len < 0 || u->outpacketq[k].len > cap) { bad = "outpacketq[].len"; val = u->outpacketq[k].len; }
		for (int k = 0; k < DNSCACHE_LEN && !bad; k++) if (u->dnscache_answerlen[k] < 0 || u->dnscache_answerlen[k] > (int)sizeof u->dnscache_answer[k]) { bad = "dnscache_answerlen[]"; val = u->dnscache_answerlen[k]; }
		if (bad) { viol("session-record-out-of-range", "state '%s': %s of slot %d is %ld after: %s", STATE_DESC[cur_state], bad, i, val, cur_desc); return; }
	}
}

static void health_probe(void)
{
	check_user_invariants();
	static rd_msg m; const uint8_t *pl; uint8_t pkt[800], ip[100], z[200];
	if (!vw_alive(0) || probe_failed) return;
	char saved[200]; snprintf(saved, sizeof saved, "%s", cur_desc);
	xp_count(K_PROBES, 1);
	/* 1. ping */
	adv_clear();
	int n = tm_ping(pkt, ++b_id, 10, 0, b_dnseq, b_dnfrag, b_cmc++, DOM);
	adv_send(&B_ADDR, ALEN, pkt, n);
	int k = b_answer(&pl, &m);
	if (k < 2 || !(pl[0] & 0x80)) { probe_failed = 1; viol("other-session-no-longer-served", "state '%s': session B's ping is not answered any more (%d bytes) after a batch ending with: %s", STATE_DESC[cur_state], k, saved); return; }
	/* 2. upstream packet */
	int l = tm_ippkt(ip, 40, 0x0A000002, 0xC0A80101u, 7000 + b_cmc), zl = tm_compress(ip, l, z, sizeof z);
	b_upseq = (b_upseq + 1) & 7;
	adv_clear();
	n = tm_data(pkt, ++b_id, 10, 0, b_upseq, 0, b_dnseq, b_dnfrag, 1, "abcdefghijklmnopqrstuvwxyz0123456789"[b_cmc % 36], REF_B32, z, zl, DOM);
	adv_send(&B_ADDR, ALEN, pkt, n);
	if (vw_alive(0) && W.proc[0].deadline != VW_NEVER && W.proc[0].deadline - W.now <= 20000) { vw_run_until(W.proc[0].deadline); vw_run_quiescent(0); }
	int tw = 0;
	for (int i = 0; i < adv_nout; i++) if (adv_outs[i].kind == 3 && adv_outs[i].full_len == l && !memcmp(adv_outs[i].data, ip, l)) tw = 1;
	if (!tw) { probe_failed = 1; viol("other-session-no-longer-served", "state '%s': session B's upstream packet is not delivered to the tun any more after a batch ending with: %s", STATE_DESC[cur_state], saved); return; }
	/* 3. downstream packet.  First fetch whatever hostile tun frames have queued up for B (the server drops new packets
	 * for a session whose queue of four is full - that is its documented back-pressure, not a failure), then offer the
	 * probe packet and fetch it */
	{
		int quiet = 0;
		for (int tries = 0; tries < 4000 && quiet < 2; tries++) {
			adv_clear();
			n = tm_ping(pkt, ++b_id, 10, 0, b_dnseq, b_dnfrag, b_cmc++, DOM);
			adv_send(&B_ADDR, ALEN, pkt, n);
			k = b_answer(&pl, &m);
			if (k > 2 && (pl[0] & 0x80)) { b_dnseq = (pl[1] >> 5) & 7; b_dnfrag = (pl[1] >> 1) & 15; quiet = 0; } else quiet++;
		}
	}
	l = tm_ippkt(ip, 40, 0xC0A80101u, 0x0A000002, 8000 + b_cmc);
	adv_clear();
	adv_tun_in(ip, l);
	int got = 0;
	for (int tries = 0; tries < 60 && !got; tries++) {
		/* a data answer may already have gone out on the previous query; otherwise ask */
		k = b_answer(&pl, &m);
		if (k > 2 && (pl[0] & 0x80)) {
			unsigned char un[300]; unsigned long ul = sizeof un;
			b_dnseq = (pl[1] >> 5) & 7; b_dnfrag = (pl[1] >> 1) & 15;
			if ((pl[1] & 1) && uncompress(un, &ul, pl + 2, k - 2) == Z_OK && (int)ul == l && !memcmp(un, ip, l)) { got = 1; break; }
		}
		adv_clear();
		n = tm_ping(pkt, ++b_id, 10, 0, b_dnseq, b_dnfrag, b_cmc++, DOM);
		adv_send(&B_ADDR, ALEN, pkt, n);
	}
	/* acknowledge it so that the next probe starts clean */
	adv_clear(); n = tm_ping(pkt, ++b_id, 10, 0, b_dnseq, b_dnfrag, b_cmc++, DOM); adv_send(&B_ADDR, ALEN, pkt, n);
	if (!got) { probe_failed = 1; viol("other-session-no-longer-served", "state '%s': a tun packet for session B is not delivered any more after a batch ending with: %s", STATE_DESC[cur_state], saved); }
	adv_clear();
}

/* session C: fetch whatever the server has queued for it (every fragment acknowledged), like a client would */
static int c_slot, c_cmc, c_dnseq, c_dnfrag;
static int c_qtype = 10;       /* record type of session C's fetching pings: every type's answer writer gets the huge fragments */
static const int C_QT[7] = { 10, 16, 15, 33, 5, 1, 65399 };
static const char *C_QTN[7] = { "NULL", "TXT", "MX", "SRV", "CNAME", "A", "PRIVATE" };
static void drain_c(int maxq)
{
	static rd_msg m; static uint8_t pl[70000]; uint8_t pkt[800]; char err[128];
	for (int i = 0; i < maxq && vw_alive(0); i++) {
		adv_clear();
		int n = tm_ping(pkt, 0x7800 + i, c_qtype, c_slot, c_dnseq, c_dnfrag, c_cmc++, DOM);
		adv_send(&C_ADDR, ALEN, pkt, n);
		after_delivery();
		int got = 0;
		for (int k = 0; k < adv_nout; k++) if (adv_outs[k].kind == 0 && vw_addr_eq(&adv_outs[k].dst, &C_ADDR)) {
			if (rd_parse(adv_outs[k].data, adv_outs[k].len, &m, err)) continue;
			int l = decode_downstream(&m, adv_outs[k].data, pl, sizeof pl);
			if (l > 2 && (pl[0] & 0x80)) { c_dnseq = (pl[1] >> 5) & 7; c_dnfrag = (pl[1] >> 1) & 15; got = 1; }
		}
		if (!got && i > 1) break;
	}
}

/* ---------------------------------------------------------------- booting a state */
static uint32_t seedA;
static uint32_t login(const struct sockaddr_storage *src, int slot, int do_login)
{
	uint8_t pkt[700]; static rd_msg m; const uint8_t *pl;
	adv_clear();
	int n = tm_version(pkt, 0x700 + slot, 10, 0x00000502, 0x55 + slot, DOM);
	adv_send(src, ALEN, pkt, n);
	int k = adv_nout ? tm_null_payload(adv_outs[0].data, adv_outs[0].len, &pl, &m) : -1;
	if (k < 9 || memcmp(pl, "VACK", 4) || pl[8] != slot) vw_fatal("C05 boot: no VACK for slot %d", slot);
	uint32_t seed = (pl[4] << 24) | (pl[5] << 16) | (pl[6] << 8) | pl[7];
	if (!do_login) return seed;
	unsigned char h[16]; ref_login(pw32, seed, h);
	n = tm_login(pkt, 0x710 + slot, 10, slot, h, 16, 0x66, DOM);
	adv_clear(); adv_send(src, ALEN, pkt, n);
	if (!s_w_users()[slot].authenticated) vw_fatal("C05 boot: login of slot %d failed", slot);
	return seed;
}

static void boot(int state)
{
	struct w_server_cfg c = { .topdomain = DOM, .password = PW, .my_ip = "10.0.0.1", .netmask = 28, .mtu = 1130, .check_ip = 1, .bind_port = 5353, .srand_seed = 3 };
	uint8_t pkt[800];
	vw_init();
	W.hooks.on_sanitizer = NULL;
	cur_state = state; probe_failed = 0; dead_reported = 0;
	b_cmc = 0x3000; b_id = 0x4000; b_upseq = b_dnseq = b_dnfrag = 0;
	snprintf(cur_desc, sizeof cur_desc, "(start-up)");
	adv_boot(&c, 1, 1);
	login(&B_ADDR, 0, 1);
	if (state >= 1) seedA = login(&A_ADDR, 1, state >= 2);
	{
		/* session C (next free slot): the largest fragment size a client can ask for, lazy, with a held ping */
		int cslot = state >= 1 ? 2 : 1;
		login(&C_ADDR, cslot, 1);
		int n = tm_setfrag(pkt, 0x740, 10, cslot, 65535, 0x78, DOM); adv_send(&C_ADDR, ALEN, pkt, n);
		n = tm_short(pkt, 0x741, 10, 'o', tm_5to8(cslot), 'l', 0x79, DOM); adv_send(&C_ADDR, ALEN, pkt, n);
		n = tm_ping(pkt, 0x742, 10, cslot, 0, 0, 0x2222, DOM); adv_send(&C_ADDR, ALEN, pkt, n);
		c_slot = cslot; c_cmc = 0x5000; c_dnseq = c_dnfrag = 0;
		if (s_w_users()[cslot].fragsize != 65535) vw_fatal("C05 boot: session C did not get its fragment size");
	}
	if (state == 3) {
		int n = tm_short(pkt, 0x730, 10, 'o', tm_5to8(1), 'l', 0x77, DOM); adv_send(&A_ADDR, ALEN, pkt, n);
		n = tm_ping(pkt, 0x731, 10, 1, 0, 0, 0x1111, DOM); adv_send(&A_ADDR, ALEN, pkt, n);
	}
	if (state == 4) {
		unsigned char ip[100], z[200];
		int l = tm_ippkt(ip, 60, 0x0A000003, 0xC0A80101u, 5), zl = tm_compress(ip, l, z, sizeof z);
		int n = tm_data(pkt, 0x732, 10, 1, 1, 0, 0, 0, 0, 'a', REF_B32, z, zl / 2, DOM); adv_send(&A_ADDR, ALEN, pkt, n);
	}
	if (state == 5) {
		unsigned char h[16]; ref_login(pw32, seedA + 1, h);
		int n = tm_raw(pkt, 0x10, 1, h, 16); adv_send(&A_ADDR, ALEN, pkt, n);
		if (s_w_users()[1].conn != CONN_RAW_UDP) vw_fatal("C05 boot: raw login failed");
	}
	adv_clear();
	W.hooks.on_sanitizer = on_san;
	signal(SIGPROF, on_alarm);
}

/* ---------------------------------------------------------------- families */
static const struct sockaddr_storage *SRCS[3];
static long batch;
static void tick(void) { if ((++batch & 127) == 0) { hc_cpu_alarm(20); health_probe(); } }

static int seed_queries(unsigned char out[][700], int *lens, const char **names)
{
	int n = 0; uint8_t wire[300]; char nm[300];
	/* one per type, short and long names, base128 bytes */
	static const int T[] = { 10, 65399, 16, 33, 15, 5, 1, 2 };
	static const char *TN[] = { "NULL", "PRIVATE", "TXT", "SRV", "MX", "CNAME", "A", "NS" };
	for (int t = 0; t < 8; t++) {
		if (t == 7) snprintf(nm, sizeof nm, "%s", DOM); else snprintf(nm, sizeof nm, "zabcAbC09.%s", DOM);
		int wl = rd_dotted_to_wire(nm, (int)strlen(nm), wire, sizeof wire);
		lens[n] = rd_mkquery(out[n], 700, 0x5000 + t, wire, wl, T[t], t & 1); names[n] = TN[t]; n++;
	}
	{ /* maximal name with 8-bit bytes: a data fragment of session A in base128 alphabet characters */
		int k = 0; nm[k++] = '1';
		while (k < 230) { if (k % 58 == 57) nm[k++] = '.'; else nm[k] = (char)(0xbc + (k % 60)), k++; }
		nm[k] = 0; snprintf(nm + k, sizeof nm - k, ".%s", DOM);
		int wl = rd_dotted_to_wire(nm, (int)strlen(nm), wire, sizeof wire);
		lens[n] = rd_mkquery(out[n], 700, 0x5010, wire, wl, 10, 1); names[n] = "maximal 8-bit data query"; n++;
	}
	{ const char *f = "www.elsewhere.org"; int wl = rd_dotted_to_wire(f, (int)strlen(f), wire, sizeof wire); lens[n] = rd_mkquery(out[n], 700, 0x5011, wire, wl, 1, 0); names[n] = "query outside the tunnel domain"; n++; }
	return n;
}

static void fam_dns_truncations(void)
{
	static unsigned char q[12][700]; int lens[12]; const char *names[12];
	int n = seed_queries(q, lens, names);
	for (int i = 0; i < n; i++) for (int k = 0; k <= lens[i]; k++) { deliver(SRCS[k % 3], q[i], k, "%s query truncated to %d of %d bytes", names[i], k, lens[i]); tick(); }
}

static void fam_dns_substitutions(int part, int parts)
{
	static unsigned char q[12][700]; int lens[12]; const char *names[12];
	static const unsigned char SUB[] = { 0x00, 0x01, 0x3f, 0x40, 0x7f, 0x80, 0xbf, 0xc0, 0xff };
	int n = seed_queries(q, lens, names);
	for (int i = part; i < n; i += parts) for (int off = 0; off < lens[i]; off++) for (unsigned v = 0; v < sizeof SUB; v++) {
		unsigned char m[700]; memcpy(m, q[i], lens[i]);
		if (m[off] == SUB[v]) continue;
		m[off] = SUB[v];
		deliver(SRCS[off % 3], m, lens[i], "%s query with byte %d set to 0x%02x", names[i], off, SUB[v]); tick();
	}
}

static void fam_dns_structure(void)
{
	unsigned char m[1400]; uint8_t wire[300]; char nm[300];
	snprintf(nm, sizeof nm, "zabcAbC09.%s", DOM);
	int wl = rd_dotted_to_wire(nm, (int)strlen(nm), wire, sizeof wire);
	int len = rd_mkquery(m, 700, 0x5100, wire, wl, 10, 0);
	static const int CNT[] = { 0, 1, 2, 255, 65535 };
	for (int f = 0; f < 4; f++) for (int v = 0; v < 5; v++) { unsigned char x[700]; memcpy(x, m, len); x[4 + 2 * f] = CNT[v] >> 8; x[5 + 2 * f] = CNT[v]; deliver(&X_ADDR, x, len, "query with header count field %d = %d", f, CNT[v]); tick(); }
	for (int fl = 0; fl < 256; fl++) { unsigned char x[700]; memcpy(x, m, len); x[2] = fl; deliver(&X_ADDR, x, len, "query with flags byte 0x%02x", fl); tick(); }
	/* name shapes */
	static const int LAB[] = { 0, 1, 62, 63, 64, 65, 127, 128, 191, 192, 255 };
	for (unsigned l = 0; l < sizeof LAB / sizeof LAB[0]; l++) for (int fill = 0; fill < 2; fill++) {
		int n = 12; memset(m, 0, 12); m[0] = 0x51; m[1] = l; m[2] = 1; m[5] = 1;
		m[n++] = LAB[l];
		for (int i = 0; i < LAB[l] && n < 600; i++) m[n++] = fill ? 0xfd : 'a';
		int wl2 = rd_dotted_to_wire(DOM, (int)strlen(DOM), m + n, 100); n += wl2;
		m[n++] = 0; m[n++] = 10; m[n++] = 0; m[n++] = 1;
		deliver(&X_ADDR, m, n, "query whose first label has length byte %d (%s fill)", LAB[l], fill ? "0xfd" : "'a'"); tick();
	}
	for (int depth = 1; depth <= 12; depth++) {
		/* chain of pointers: each points to the next, the last to a real name */
		int n = 12; memset(m, 0, 12); m[0] = 0x52; m[1] = depth; m[2] = 1; m[5] = 1;
		int first = n;
		for (int i = 0; i < depth; i++) { int target = first + 2 * (i + 1) + 4 * (i == depth - 1 ? 0 : 0); m[n++] = 0xc0; m[n++] = 0; (void)target; }
		m[n++] = 0; m[n++] = 10; m[n++] = 0; m[n++] = 1;
		int nameat = n; int wl2 = rd_dotted_to_wire(nm, (int)strlen(nm), m + n, 200); n += wl2;
		/* pointer i is at first+2i; chain runs backwards from the question: question = pointer 0 -> pointer 1 ... -> name */
		for (int i = 0; i < depth; i++) { int target = i == depth - 1 ? nameat : first + 2 * (i + 1); m[first + 2 * i] = 0xc0 | (target >> 8); m[first + 2 * i + 1] = target; }
		/* only pointer 0 is the question name; the others sit where type/class would be read: also a shape */
		deliver(&X_ADDR, m, n, "query whose name is a chain of %d compression pointers", depth); tick();
	}
	static const int PT[] = { 12, 13, 14, 0, 1, 11, 0x3fff, 0x3ffe, 18, 17, 16, 19 };
	for (unsigned p = 0; p < sizeof PT / sizeof PT[0]; p++) for (int pre = 0; pre < 3; pre++) {
		int n = 12; memset(m, 0, 12); m[0] = 0x53; m[1] = p; m[2] = 1; m[5] = 1;
		if (pre >= 1) { m[n++] = 1; m[n++] = 'z'; }
		if (pre == 2) { m[n++] = 3; m[n++] = 'a'; m[n++] = 'b'; m[n++] = 'c'; }
		m[n++] = 0xc0 | (PT[p] >> 8); m[n++] = PT[p];
		m[n++] = 0; m[n++] = 10; m[n++] = 0; m[n++] = 1;
		deliver(&X_ADDR, m, n, "query with %d labels then a compression pointer to offset %d (message %d bytes)", pre, PT[p], n); tick();
	}
	for (int total = 250; total <= 262; total++) {
		/* names of 250..262 bytes on the wire made of 50-byte labels */
		int n = 12; memset(m, 0, 12); m[0] = 0x54; m[1] = total; m[2] = 1; m[5] = 1;
		int left = total - 1 - (int)strlen(DOM) - 2;
		m[n++] = 1; m[n++] = 'z'; left -= 2;
		while (left > 0) { int l = left > 51 ? 50 : left - 1; if (l < 1) l = 1; m[n++] = l; for (int i = 0; i < l; i++) m[n++] = 'a' + i % 26; left -= l + 1; }
		int wl2 = rd_dotted_to_wire(DOM, (int)strlen(DOM), m + n, 100); n += wl2;
		m[n++] = 0; m[n++] = 10; m[n++] = 0; m[n++] = 1;
		deliver(&X_ADDR, m, n, "query with a name of about %d bytes on the wire", total); tick();
	}
	for (int l = 0; l < 12; l++) { memset(m, 0xff, 12); deliver(&X_ADDR, m, l, "%d bytes of 0xff", l); deliver(&X6_ADDR, m, l, "%d bytes of 0xff over IPv6", l); tick(); }
	/* answers sent to the server, and replies on the forwarding socket with every id class */
	{ unsigned char x[700]; memcpy(x, m, 0); int l2 = rd_mkquery(x, 700, 0, wire, wl, 10, 0); x[2] = 0x84; deliver(&X_ADDR, x, l2, "a response (QR=1) sent to the server"); tick();
	  for (int id = 0; id < 3; id++) { x[0] = 0; x[1] = id; adv_clear(); snprintf(cur_desc, sizeof cur_desc, "reply with id %d on the forwarding socket", id); adv_send_sock(adv_bind_sock, &LOCALDNS, ALEN, x, l2); after_delivery(); for (int k = 0; k < 13; k++) { adv_clear(); snprintf(cur_desc, sizeof cur_desc, "%d-byte reply on the forwarding socket", k); adv_send_sock(adv_bind_sock, &LOCALDNS, ALEN, x, k); after_delivery(); } tick(); } }
}

static const unsigned char UID[] = { '0', '1', 'a', 'f', '5', 'z', 0x00, 0x7f, 0x80, 0xff, 'b', 'B' };
static const unsigned char ARGC[] = { 'a', 'A', '5', '9', '-', 0x80, 0xbc, 0xfd, 0xff, 0x01 };
static const int ARGL[] = { 0, 1, 2, 3, 4, 5, 6, 16, 17, 50, 200, 236 };

static int mk_cmd(unsigned char *pkt, int id, int qtype, int cmd, int uid, int argc, int argl)
{
	unsigned char name[300]; int n = 0;
	name[n++] = cmd; name[n++] = uid;
	for (int i = 0; i < argl; i++) name[n++] = (i % 7 == 3 && argc >= 'a') ? 'b' : argc;
	return tm_query(pkt, 800, id, qtype, (const char *)name, n, DOM, 0);
}

static void fam_commands(int part, int parts)
{
	unsigned char pkt[900];
	int idx = 0;
	for (int cmd = 'a'; cmd <= 'z'; cmd++) for (int cs = 0; cs < 2; cs++) {
		if ((idx++ % parts) != part) continue;
		int c = cs ? toupper(cmd) : cmd;
		for (unsigned u = 0; u < sizeof UID; u++) for (unsigned a = 0; a < sizeof ARGC; a++) for (unsigned l = 0; l < sizeof ARGL / sizeof ARGL[0]; l++) {
			if (!thorough && a >= 5 && (l % 3) != (u % 3)) continue;
			int n = mk_cmd(pkt, 0x6000 + l, 10, c, UID[u], ARGC[a], ARGL[l]);
			if (n < 0) continue;
			deliver(u & 1 ? &A_ADDR : &X_ADDR, pkt, n, "command '%c' userid byte 0x%02x, %d argument bytes 0x%02x", c, UID[u], ARGL[l], ARGC[a]); tick();
		}
	}
}

static void fam_commands_types(void)
{
	unsigned char pkt[900];
	static const int T[] = { 65399, 16, 33, 15, 5, 1, 2, 28, 255 };
	static const char CMDS[] = "vlizsoyrnp1bxVLIZSOYRNP";
	for (unsigned t = 0; t < sizeof T / sizeof T[0]; t++) for (const char *c = CMDS; *c; c++) for (unsigned u = 0; u < sizeof UID; u += 1) for (int l = 0; l < 3; l++) {
		static const int LL[3] = { 0, 4, 60 };
		int n = mk_cmd(pkt, 0x6100, T[t], *c, UID[u], u & 1 ? 'a' : 0xbd, LL[l]);
		if (n < 0) continue;
		deliver(u & 1 ? &A_ADDR : &X6_ADDR, pkt, n, "command '%c' in a type %d query, userid byte 0x%02x, %d argument bytes", *c, T[t], UID[u], LL[l]); tick();
	}
	/* well-formed base32 commands of the logged-in session A (userid 1) with every payload length 0..60 and 200 */
	for (int len = 0; len <= 61; len++) for (const char *c = "plnvPLNV"; *c; c++) for (int uid = 0; uid < 3; uid++) {
		unsigned char payload[256]; char s_[500]; int L = len == 61 ? 140 : len;
		payload[0] = uid; for (int i = 1; i < L; i++) payload[i] = (unsigned char)(i * 37 + len);
		s_[0] = *c; int k = tm_b32(payload, L, s_ + 1);
		int n = tm_query(pkt, 900, 0x6150 + len, uid & 1 ? 10 : 16, s_, 1 + k, DOM, 0);
		if (n < 0) continue;
		deliver(&A_ADDR, pkt, n, "command '%c' with a well-formed base32 payload of %d bytes for userid %d", *c, L, uid); tick();
	}
	/* well-formed commands with hostile field values */
	static const int SIZES[] = { 0, 1, 2, 3, 100, 2046, 2047, 2048, 4095, 4096, 65535 };
	for (unsigned s_ = 0; s_ < sizeof SIZES / sizeof SIZES[0]; s_++) for (int u = 0; u < 17; u++) {
		int n = tm_setfrag(pkt, 0x6200, 10, u == 16 ? 0x80 : u, SIZES[s_], 0x99, DOM); deliver(&A_ADDR, pkt, n, "fragment-size request userid %d size %d", u, SIZES[s_]); tick();
		n = tm_fragprobe(pkt, 0x6201, u & 1 ? 16 : 10, u & 15, SIZES[s_] & 2047, 0x99, 40 + u, DOM); deliver(&A_ADDR, pkt, n, "fragment-size probe userid %d size %d", u & 15, SIZES[s_] & 2047); tick();
	}
	for (int codec = 0; codec < 32; codec++) for (int u = 0; u < 3; u++) { int n = tm_short(pkt, 0x6202, 10, 's', tm_5to8(u), tm_5to8(codec), 0x99, DOM); deliver(&A_ADDR, pkt, n, "codec switch userid %d to codec %d", u, codec); tick(); }
	for (int opt = 0; opt < 256; opt++) { int n = tm_short(pkt, 0x6203, 10, 'o', tm_5to8(1), opt, 0x99, DOM); if (n > 0) { deliver(&A_ADDR, pkt, n, "option request with option byte 0x%02x", opt); tick(); } }
	for (int v = 0; v < 256; v++) { int n = tm_short(pkt, 0x6204, v & 1 ? 16 : 5, 'y', v, tm_5to8(1), 0x99, DOM); if (n > 0) { deliver(&X_ADDR, pkt, n, "downstream codec check with codec byte 0x%02x", v); tick(); } }
}

static void fam_data(void)
{
	unsigned char pkt[900], ip[70000], z[70000];
	/* payload kinds: valid small packet, 1 byte, invalid zlib, packet that inflates to 64 KB, empty */
	int l = tm_ippkt(ip, 40, 0x0A000003, 0xC0A80101u, 77), zl = tm_compress(ip, l, z, sizeof z);
	static unsigned char big[66000]; memset(big, 0, sizeof big); big[2] = 8; big[4] = 0x45;
	unsigned char zbig[1000]; int zbl = tm_compress(big, 65535, zbig, sizeof zbig);
	unsigned char toobig[1000]; int ztl = tm_compress(big, 66000, toobig, sizeof toobig);
	struct { const unsigned char *p; int n; const char *d; } PL[] = { { z, zl, "a valid packet" }, { z, 1, "1 byte" }, { (const unsigned char *)"not zlib at all....", 19, "invalid zlib" }, { zbig, zbl, "a packet inflating to 65535 bytes" },
		{ toobig, ztl, "a packet inflating to 66000 bytes" }, { z, 0, "nothing" } };
	for (unsigned p = 0; p < sizeof PL / sizeof PL[0]; p++) for (int uid = 0; uid < 3; uid++) for (int seq = 0; seq < 8; seq++) for (int frag = 0; frag < 16; frag += (frag == 1 ? 14 : 1)) for (int dn = 0; dn < 4; dn++) for (int last = 1; last >= 0; last--) {
		int n = tm_data(pkt, 0x6300, 10, uid, seq, frag, dn & 1 ? 7 : 0, dn & 2 ? 15 : 0, last, 'a' + seq, REF_B32, PL[p].p, PL[p].n > 130 ? 130 : PL[p].n, DOM);
		if (n < 0) continue;
		deliver(uid == 1 ? &A_ADDR : &X_ADDR, pkt, n, "data fragment userid %d seq %d frag %d last %d carrying %s", uid, seq, frag, last, PL[p].d); tick();
	}
	/* many fragments of the same packet: fill the reassembly buffer to its limit */
	for (int i = 0; i < 600; i++) {
		unsigned char junk[200]; memset(junk, i, sizeof junk);
		int n = tm_data(pkt, 0x6400 + i, 10, 1, 5, (i % 15) + 1, 0, 0, 0, "abcdefghijklmnopqrstuvwxyz0123456789"[i % 36], REF_B32, junk, 120, DOM);
		deliver(&A_ADDR, pkt, n, "fragment %d of a never-ending upstream packet (120 bytes each)", i); tick();
	}
	/* ... and a long run of packets whose last fragment never arrives: first fragment, next sequence number, again and again */
	for (int i = 0; i < 700; i++) {
		unsigned char junk[200]; memset(junk, 0x30 + (i & 63), sizeof junk);
		int n = tm_data(pkt, 0x6800 + i, 10, 1, (i + 6) & 7, 0, 0, 0, 0, "abcdefghijklmnopqrstuvwxyz0123456789"[(i * 7 + 3) % 36], REF_B32, junk, 130, DOM);
		deliver(&A_ADDR, pkt, n, "first fragment (130 bytes, not the last) of unfinished upstream packet %d, each with the next sequence number", i); tick();
	}
}

static void fam_raw(void)
{
	static unsigned char buf[66000];
	static const int LENS[] = { 4096, 4097, 65507 };
	for (int cmd = 0; cmd < 16; cmd++) for (int u = 0; u < 16; u++) {
		for (int len = 0; len <= 40; len++) {
			if (!thorough && (len % 4) != (u % 4) && len > 6 && len != 20) continue;
			memset(buf, 0x41 + cmd, sizeof buf > 100 ? 100 : sizeof buf);
			buf[0] = 0x10; buf[1] = 0xd1; buf[2] = 0x9e; buf[3] = (cmd << 4) | u;
			deliver(u & 1 ? &A_ADDR : &X_ADDR, buf, len, "raw frame command nibble %d user nibble %d, %d bytes", cmd, u, len); tick();
		}
		if (cmd <= 3) for (int k = 0; k < 3; k++) {
			memset(buf, 0x55, LENS[k]); buf[0] = 0x10; buf[1] = 0xd1; buf[2] = 0x9e; buf[3] = (cmd << 4) | u;
			deliver(&A_ADDR, buf, LENS[k], "raw frame command nibble %d user nibble %d, %d bytes", cmd, u, LENS[k]); tick();
		}
	}
	/* frames that stop before or inside the 4-byte header, each right after a complete frame with the same command / user byte from
	 * the same address: what the longer one left in the receive buffer must not complete the shorter one (seeded C05-j: a 3-byte
	 * frame taken for a raw DATA frame of -1 bytes) */
	for (int cmd = 0; cmd < 16; cmd++) for (int u = 0; u < 16; u++) for (int len = 3; len >= 0; len--) {
		memset(buf, 0x41 + cmd, 100);
		buf[0] = 0x10; buf[1] = 0xd1; buf[2] = 0x9e; buf[3] = (cmd << 4) | u;
		if (cmd == 2) { int n = tm_raw(buf, 0x20, u, (const uint8_t *)"\x78\xda\x03\x00\x00\x00\x00\x01", 8); deliver(u & 1 ? &A_ADDR : &X_ADDR, buf, n, "raw data frame (empty inner packet) user nibble %d", u); }
		else deliver(u & 1 ? &A_ADDR : &X_ADDR, buf, 24, "raw frame command nibble %d user nibble %d, 24 bytes", cmd, u);
		deliver(u & 1 ? &A_ADDR : &X_ADDR, buf, len, "the first %d bytes of the frame before (command nibble %d user nibble %d)", len, cmd, u); tick();
	}
	/* raw data of A (user nibble 1) relayed to other sessions: incompressible inner packets of many sizes */
	{
		static unsigned char ip[70000], z[70100];
		static const int SZ[] = { 100, 1500, 4000, 4080, 4090, 4096, 4200, 6000, 9000 };
		uint32_t cip = 0x0A000002 + c_slot;
		for (unsigned k = 0; k < sizeof SZ / sizeof SZ[0]; k++) for (int dst = 0; dst < 3; dst++) for (int qt = 0; qt < (dst == 0 ? 7 : 1); qt++) {
			c_qtype = C_QT[qt];
			unsigned x = 2463534242u + SZ[k];
			for (int i = 0; i < SZ[k]; i++) { x ^= x << 13; x ^= x >> 17; x ^= x << 5; ip[i] = x; }
			ip[0] = ip[1] = 0; ip[2] = 8; ip[3] = 0; ip[4] = 0x45;
			uint32_t d = dst == 0 ? cip : dst == 1 ? 0x0A000002 : 0xC0A80101u;
			ip[20] = d >> 24; ip[21] = d >> 16; ip[22] = d >> 8; ip[23] = d;
			int zl = tm_compress(ip, SZ[k], z, sizeof z);
			int n = tm_raw(buf, 0x20, 1, z, zl);
			deliver(&A_ADDR, buf, n, "raw data of A: %d-byte incompressible packet (%d compressed) for %s", SZ[k], zl, dst == 0 ? "session C (fragment size 65535)" : dst == 1 ? "session B" : "the server's tun");
			if (dst == 0) { size_t cl = strlen(cur_desc); snprintf(cur_desc + cl, sizeof cur_desc - cl, ", fetched with %s pings", C_QTN[qt]); drain_c(40); }
			tick();
		}
		c_qtype = 10;
	}
	/* raw data with valid / inflating payloads for every user nibble */
	static unsigned char big[66000]; memset(big, 0, sizeof big); big[2] = 8; big[4] = 0x45;
	unsigned char zbig[1000]; int zbl = tm_compress(big, 66000, zbig, sizeof zbig);
	for (int u = 0; u < 16; u++) { int n = tm_raw(buf, 0x20, u, zbig, zbl); deliver(&A_ADDR, buf, n, "raw data for user nibble %d inflating to 66000 bytes", u); tick(); }
}

static void fam_tun_big(void)
{
	/* incompressible frames for the session with the huge fragment size, and for the probe session */
	static unsigned char f[70000];
	static const int SZ[] = { 1500, 4000, 4090, 4092, 4094, 4096, 4098, 4100, 4200, 5000, 8190, 8200, 20000, 65535 };
	uint32_t cip = 0x0A000002 + c_slot;
	for (unsigned k = 0; k < sizeof SZ / sizeof SZ[0]; k++) for (int dst = 0; dst < 2; dst++) for (int qt = 0; qt < (dst == 0 ? 7 : 1); qt++) {
		c_qtype = C_QT[qt];
		unsigned x = 88172645u + SZ[k];
		for (int i = 0; i < SZ[k]; i++) { x ^= x << 13; x ^= x >> 17; x ^= x << 5; f[i] = x; }
		f[0] = f[1] = 0; f[2] = 8; f[3] = 0; f[4] = 0x45;
		uint32_t d = dst ? 0x0A000002 : cip;
		f[20] = d >> 24; f[21] = d >> 16; f[22] = d >> 8; f[23] = d;
		snprintf(cur_desc, sizeof cur_desc, "incompressible tun frame of %d bytes for session %s", SZ[k], dst ? "B (fragment size 100)" : "C (fragment size 65535)");
		deliver_tun(f, SZ[k], "%s", cur_desc);
		char keep[200]; snprintf(keep, sizeof keep, "%s, then fetched by its session with %s pings", cur_desc, C_QTN[qt]);
		if (!dst) { snprintf(cur_desc, sizeof cur_desc, "%s", keep); drain_c(40); }
		tick();
	}
	c_qtype = 10;
}

static void fam_tun(void)
{
	static unsigned char f[70000];
	static const uint32_t DST[] = { 0x0A000002, 0x0A000003, 0x0A000001, 0x0A00000F, 0x08080808, 0xffffffff };
	for (unsigned d = 0; d < sizeof DST / sizeof DST[0]; d++) {
		for (int len = 0; len <= 64; len++) {
			memset(f, 0, sizeof f > 80 ? 80 : sizeof f); f[2] = 8;
			for (int i = 4; i < len; i++) f[i] = i * 7;
			if (len >= 24) { f[20] = DST[d] >> 24; f[21] = DST[d] >> 16; f[22] = DST[d] >> 8; f[23] = DST[d]; }
			deliver_tun(f, len, "tun frame of %d bytes for %08x", len, DST[d]); tick();
		}
		static const int BIG[] = { 1130, 1500, 4096, 65535 };
		for (int k = 0; k < 4; k++) { memset(f, 0x5a, BIG[k]); f[20] = DST[d] >> 24; f[21] = DST[d] >> 16; f[22] = DST[d] >> 8; f[23] = DST[d]; deliver_tun(f, BIG[k], "tun frame of %d bytes for %08x", BIG[k], DST[d]); tick(); }
	}
}

/* ordered pairs of class representatives: one datagram's leftovers meet the next */
static void fam_pairs(void)
{
	static unsigned char rep[48][700]; int rl[48]; const struct sockaddr_storage *rs[48]; char rd[48][60]; int nr = 0;
	static unsigned char q[12][700]; int lens[12]; const char *names[12];
	int n = seed_queries(q, lens, names);
	uint8_t pkt[900]; unsigned char ip[100], z[200], h[16];
	#define REP(src, p, l, ...) do { if (nr < 48 && (l) > 0 && (l) <= 700) { memcpy(rep[nr], p, l); rl[nr] = l; rs[nr] = src; snprintf(rd[nr], sizeof rd[0], __VA_ARGS__); nr++; } } while (0)
	for (int i = 0; i < n; i += 2) { REP(&X_ADDR, q[i], lens[i], "%s query", names[i]); REP(&X_ADDR, q[i], lens[i] / 2, "half a %s query", names[i]); }
	{ int l = tm_version(pkt, 0x7100, 10, 0x502, 1, DOM); REP(&X_ADDR, pkt, l, "version"); }
	{ int l = tm_ping(pkt, 0x7101, 10, 1, 0, 0, 0x5151, DOM); REP(&A_ADDR, pkt, l, "ping of A"); REP(&X_ADDR, pkt, l, "spoofed ping of A"); }
	{ int l = tm_ping(pkt, 0x7102, 10, 0x80, 0, 0, 0x5152, DOM); REP(&A_ADDR, pkt, l, "ping userid 128"); }
	{ int k = tm_ippkt(ip, 40, 0x0A000003, 0x0A000002, 3), zl = tm_compress(ip, k, z, sizeof z); int l = tm_data(pkt, 0x7103, 10, 1, 3, 0, 0, 0, 1, 'q', REF_B32, z, zl, DOM); REP(&A_ADDR, pkt, l, "data A->B"); l = tm_data(pkt, 0x7104, 10, 1, 4, 0, 0, 0, 0, 'r', REF_B32, z, zl / 2, DOM); REP(&A_ADDR, pkt, l, "first half of a data packet");
	  l = tm_raw(pkt, 0x20, 1, z, zl); REP(&A_ADDR, pkt, l, "raw data of A"); }
	{ ref_login(pw32, seedA + 1, h); int l = tm_raw(pkt, 0x10, 1, h, 16); REP(&A_ADDR, pkt, l, "raw login of A"); l = tm_raw(pkt, 0x30, 1, NULL, 0); REP(&A_ADDR, pkt, l, "raw ping of A"); }
	{ ref_login(pw32, seedA, h); int l = tm_login(pkt, 0x7105, 10, 1, h, 16, 2, DOM); REP(&A_ADDR, pkt, l, "login of A"); l = tm_login(pkt, 0x7106, 10, 0xff, h, 16, 2, DOM); REP(&A_ADDR, pkt, l, "login userid 255"); }
	{ int l = tm_setfrag(pkt, 0x7107, 10, 1, 2, 3, DOM); REP(&A_ADDR, pkt, l, "N(2) of A"); l = tm_setfrag(pkt, 0x7108, 10, 1, 65535, 3, DOM); REP(&A_ADDR, pkt, l, "N(65535) of A"); }
	{ int l = tm_short(pkt, 0x7109, 10, 'o', tm_5to8(1), 'l', 4, DOM); REP(&A_ADDR, pkt, l, "lazy on"); l = tm_short(pkt, 0x710a, 16, 'o', tm_5to8(1), 'r', 4, DOM); REP(&A_ADDR, pkt, l, "downenc raw (TXT)"); l = tm_short(pkt, 0x710b, 10, 's', tm_5to8(1), tm_5to8(7), 4, DOM); REP(&A_ADDR, pkt, l, "codec base128"); }
	{ int l = mk_cmd(pkt, 0x710c, 10, 'i', 0x80, 'a', 3); REP(&A_ADDR, pkt, l, "i with userid 0x80"); l = mk_cmd(pkt, 0x710d, 5, 'p', 0xff, 0xfd, 200); REP(&X_ADDR, pkt, l, "p with 0xff.. (CNAME)"); }
	for (int a = 0; a < nr; a++) for (int b = 0; b < nr; b++) {
		deliver(rs[a], rep[a], rl[a], "pair (%s, then %s): first", rd[a], rd[b]);
		deliver(rs[b], rep[b], rl[b], "pair (%s, then %s): second", rd[a], rd[b]);
		xp_count(K_PAIRS, 1); tick();
	}
}

#define NFAM 12
static const char *FAM_DESC[NFAM] = { "truncations of seed queries", "single-byte substitutions (1/3)", "single-byte substitutions (2/3)", "single-byte substitutions (3/3)", "header counts, flags, label lengths, pointer chains and targets, long names, forwarding-socket replies",
	"every command letter x userid byte x argument byte x length (1/2)", "every command letter x userid byte x argument byte x length (2/2)", "commands under every record type, hostile field values", "data headers x payload kinds, endless fragment trains",
	"raw frames: all lengths x command x user nibbles", "tun frames: all lengths x destinations", "ordered pairs of class representatives" };

static void job(int j)
{
	int state = j / NFAM, fam = j % NFAM;
	boot(state);
	batch = 0;
	hc_cpu_alarm(20);
	switch (fam) {
	case 0: fam_dns_truncations(); break;
	case 1: case 2: case 3: fam_dns_substitutions(fam - 1, 3); break;
	case 4: fam_dns_structure(); break;
	case 5: case 6: fam_commands(fam - 5, 2); break;
	case 7: fam_commands_types(); break;
	case 8: fam_data(); break;
	case 9: fam_raw(); break;
	case 10: fam_tun(); fam_tun_big(); break;
	case 11: fam_pairs(); break;
	}
	hc_cpu_alarm(20);
	health_probe();
	hc_cpu_alarm(0);
	xp_outcome(((uint64_t)state << 32) ^ ((uint64_t)fam << 24) ^ (uint64_t)(XS->counters[K_ANSWERED] & 0xffff));
	if (state == 2) xp_sample("family '%s' in state '%s': last datagram '%s'", FAM_DESC[fam], STATE_DESC[state], cur_desc);
	__atomic_fetch_add(&XS->execs, 1, __ATOMIC_RELAXED);
}
static void describe_job(int j, char *b, size_t n) { snprintf(b, n, "state: %s; family: %s", STATE_DESC[j / NFAM], FAM_DESC[j % NFAM]); }

int main(int argc, char **argv)
{
	hc_args a = hc_parse(argc, argv, "C05");
	thorough = a.thorough;
	memset(pw32, 0, sizeof pw32); strcpy((char *)pw32, PW);
	vw_mkaddr(&A_ADDR, &ALEN, "198.51.100.7", 4000); vw_mkaddr(&B_ADDR, &ALEN, "198.51.100.8", 4001); vw_mkaddr(&C_ADDR, &ALEN, "198.51.100.9", 4003); vw_mkaddr(&X_ADDR, &ALEN, "203.0.113.9", 4999);
	vw_mkaddr6(&X6_ADDR, &A6LEN, "2001:db8::99", 4002); vw_mkaddr(&LOCALDNS, &ALEN, "127.0.0.1", 5353);
	SRCS[0] = &X_ADDR; SRCS[1] = &A_ADDR; SRCS[2] = &X6_ADDR;
	{ const struct encoder *e[4] = { &s_base32_ops, &s_base64_ops, &s_base64u_ops, &s_base128_ops }; for (int k = 0; k < 4; k++) ref_calibrate(k, e[k]->encode); }
	xp_describe_job = describe_job;
	xp_init("C05", a.tier, 1024, a.budget_s);
	if (a.replay) { int j = xp_load_replay(a.replay); job(j); return 0; }
	hc_quiet();
	xp_run_jobs(6 * NFAM, job, a.workers);
	XS->states = XS->counters[K_DGRAMS]; XS->transitions = XS->counters[K_DGRAMS] + XS->counters[K_PROBES] * 8;
	char extra[400];
	snprintf(extra, sizeof extra, "\"datagrams\":%ld,\"health_probes\":%ld,\"answers_seen\":%ld,\"tun_writes\":%ld,\"ordered_pairs\":%ld,\"tun_frames\":%ld,\"states\":6,\"families\":%d,\"sanitizer_reports\":%ld",
		 XS->counters[K_DGRAMS], XS->counters[K_PROBES], XS->counters[K_ANSWERED], XS->counters[K_TUNW], XS->counters[K_PAIRS], XS->counters[K_TUNFRAMES], NFAM, XS->counters[K_SAN]);
	xp_print_stats(extra);
	return 0;
}
