/* C07: codecs lossless, alphabet-pure, capacity-exact. Exhaustive enumeration of finite
 * input families through the real encode/decode entry points (base*_ops), compared with an
 * independent bit-stream reference.  DESIGN.md section 2, C07. */
#include <stdio.h>
#include <stdlib.h>
#include <string.h>
#include <unistd.h>
#include "vw.h"
#include "explore.h"
#include "images.h"
#include "refcodec.h"
#include "harness_common.h"

IMG_SERVER(s)

static const struct encoder *ops[4];
static const char *cname[4] = { "Base32", "Base64", "Base64u", "Base128" };
static int thorough;

static size_t last_consumed; static int last_w;
enum { K_CASES = 0, K_CALLS = 1, K_SHORTCAP = 2, K_CHUNKRUNS = 3 };

static void fail(int codec, const char *what, const unsigned char *in, size_t n, size_t cap, const char *fmt, ...)
{
	char detail[300], hex[80] = "";
	va_list ap; va_start(ap, fmt); vsnprintf(detail, sizeof detail, fmt, ap); va_end(ap);
	for (size_t i = 0; i < n && i < 16; i++) sprintf(hex + 2 * i, "%02x", in[i]);
	char sig[160];
	snprintf(sig, sizeof sig, "C07:%s:%s", cname[codec], what);
	xp_violation(sig, "codec=%s len=%zu cap=%zu in=%s%s: %s", cname[codec], n, cap, hex, n > 16 ? ".." : "", detail);
}

/* one encode call with exactly cap+1 bytes of output space (ASan guards the rest) */
static int check_encode(int codec, const unsigned char *in, size_t n, size_t cap)
{
	unsigned char *out = malloc(cap + 1);
	unsigned char refenc[8300], dec[8300], refdec[8300];
	memset(out, 0xAA, cap + 1);
	size_t consumed = cap;
	int before = W.sanitizer_reports;
	/* the input lives in an allocation of exactly n bytes too: a read past its end is reported by ASan */
	unsigned char *inx = malloc(n ? n : 1); memcpy(inx, in, n);
	int w = ops[codec]->encode((char *)out, &consumed, inx, n);
	free(inx);
	xp_count(K_CALLS, 1);
	int ok = 1;
	last_consumed = consumed; last_w = w;
	if (W.sanitizer_reports != before) { ok = 0; }   /* reported through on_sanitizer */
	if (w < 0 || (size_t)w > cap) { fail(codec, "enc-overrun", in, n, cap, "wrote %d chars with capacity %zu", w, cap); ok = 0; goto out; }
	if (out[w] != 0) { fail(codec, "enc-noterm", in, n, cap, "no NUL at [%d]", w); ok = 0; }
	for (size_t i = (size_t)w + 1; i <= cap; i++)
		if (out[i] != 0xAA) { fail(codec, "enc-scribble", in, n, cap, "byte %zu beyond terminator modified", i); ok = 0; break; }
	for (int i = 0; i < w; i++)
		if (!ref_in_alphabet(codec, out[i])) { fail(codec, "enc-alphabet", in, n, cap, "char 0x%02x at %d not in alphabet", out[i], i); ok = 0; break; }
	if (consumed > n) { fail(codec, "enc-consumed-gt-len", in, n, cap, "consumed %zu", consumed); ok = 0; goto out; }
	/* emitted text is a prefix of the reference encoding of the whole input */
	size_t rl = ref_encode(codec, in, n, refenc);
	if ((size_t)w > rl) { fail(codec, "enc-length", in, n, cap, "wrote %d, reference needs %zu", w, rl); ok = 0; }
	if (cap >= rl) {
		if ((size_t)w != rl) { fail(codec, "enc-length", in, n, cap, "wrote %d chars, documented ratio gives %zu", w, rl); ok = 0; }
		if (consumed != n) { fail(codec, "enc-consumed", in, n, cap, "full capacity but consumed %zu of %zu", consumed, n); ok = 0; }
	}
	/* emitted text must agree with the reference on every character that carries only
	 * bits of consumed bytes; the last character may carry bits of the next byte */
	{
		size_t full = ref_enclen(codec, consumed);
		for (size_t i = 0; i < (size_t)w && i < rl; i++) {
			if (out[i] != refenc[i] && !(i + 1 == full && consumed == n)) {
				/* allow a difference only in padding bits of the very last char: compare by decode below */
			}
		}
	}
	/* what the emitted text decodes to, by the real decoder and by the reference */
	{
		size_t dl = sizeof dec - 1;
		char *tx = malloc(w > 0 ? w : 1); if (w > 0) memcpy(tx, out, w);       /* exactly w characters, no terminator */
		int d = ops[codec]->decode(dec, &dl, tx, w);
		free(tx);
		xp_count(K_CALLS, 1);
		size_t rd = ref_decode(codec, out, w, refdec);
		if (d < 0 || (size_t)d != consumed) { fail(codec, "enc-consumed", in, n, cap, "reports %zu bytes consumed but its text (%d chars) decodes to %d", consumed, w, d); ok = 0; }
		else if (memcmp(dec, in, consumed)) { fail(codec, "roundtrip", in, n, cap, "decode(encode(x)) differs from x in the first %zu bytes", consumed); ok = 0; }
		if (rd != consumed || memcmp(refdec, in, consumed)) { fail(codec, "enc-vs-reference", in, n, cap, "reference decoder gets %zu bytes / different bytes from emitted text (consumed %zu)", rd, consumed); ok = 0; }
	}
	if (cap >= 2 && n >= 1 && consumed < 1) { fail(codec, "enc-noprogress", in, n, cap, "capacity %zu but nothing consumed", cap); ok = 0; }
out:
	free(out);
	return ok;
}

/* decoder with limited output capacity and upper-case input */
static void check_decode_caps(int codec, const unsigned char *in, size_t n)
{
	unsigned char enc[8300], up[8300];
	size_t el = ref_encode(codec, in, n, enc);
	for (size_t cap = 0; cap <= n + 1; cap++) {
		unsigned char *out = malloc(cap + 1);
		memset(out, 0xAA, cap + 1);
		size_t dl = cap;
		char *tx = malloc(el ? el : 1); memcpy(tx, enc, el);
		int d = ops[codec]->decode(out, &dl, tx, el);
		free(tx);
		xp_count(K_CALLS, 1);
		size_t want = cap < n ? cap : n;
		if (d < 0 || (size_t)d > cap) fail(codec, "dec-overrun", in, n, cap, "decoder wrote %d bytes with capacity %zu", d, cap);
		else if ((size_t)d != want || memcmp(out, in, want)) fail(codec, "dec-capacity", in, n, cap, "decoder returned %d bytes (want %zu) or wrong bytes", d, want);
		free(out);
	}
	if (codec == REF_B32) {
		for (size_t i = 0; i < el; i++) up[i] = (enc[i] >= 'a' && enc[i] <= 'z') ? enc[i] - 32 : enc[i];
		unsigned char out[8300]; size_t dl = sizeof out - 1;
		int d = ops[codec]->decode(out, &dl, (char *)up, el);
		xp_count(K_CALLS, 1);
		if (d < 0 || (size_t)d != n || memcmp(out, in, n)) fail(codec, "dec-uppercase", in, n, 0, "upper-case Base32 decodes differently");
	}
}

/* chunking contract: feed remainder chunk after chunk */
static void check_chunking(int codec, const unsigned char *in, size_t n, size_t cap)
{
	unsigned char rebuilt[8300]; size_t got = 0, off = 0;
	int rounds = 0;
	xp_count(K_CHUNKRUNS, 1);
	while (off < n && rounds++ < 10000) {
		unsigned char *out = malloc(cap + 1);
		size_t consumed = cap;
		int w = ops[codec]->encode((char *)out, &consumed, in + off, n - off);
		xp_count(K_CALLS, 1);
		if (consumed == 0 || w < 0) { free(out); if (cap >= 2) fail(codec, "chunk-stall", in, n, cap, "no progress at offset %zu", off); return; }
		size_t dl = sizeof rebuilt - 1 - got;
		int d = ops[codec]->decode(rebuilt + got, &dl, (char *)out, w);
		xp_count(K_CALLS, 1);
		free(out);
		if (d < 0) { fail(codec, "chunk-decode", in, n, cap, "decode failed"); return; }
		got += d; off += consumed;
	}
	if (got != n || memcmp(rebuilt, in, n)) fail(codec, "chunk-lossless", in, n, cap, "chunked transfer rebuilt %zu bytes of %zu, or different bytes", got, n);
}

static uint64_t outcome_hash(int codec, size_t n, size_t cap, size_t consumed)
{
	return 0x9e3779b97f4a7c15ULL * (codec + 1) ^ (n * 1000003ULL) ^ (cap * 7919ULL) ^ (consumed << 40);
}

static void one(int codec, const unsigned char *in, size_t n, size_t cap)
{
	xp_count(K_CASES, 1);
	check_encode(codec, in, n, cap);
	/* outcome class: (codec, length, capacity, consumed, written) of truncated encodes */
	if (cap < ref_enclen(codec, n))
		xp_outcome(outcome_hash(codec, n, cap, last_consumed) ^ ((uint64_t)last_w << 52) ^ 0x5bd1e995);
}

/* job = codec*8 + family */
static void first_use_job(int codec, int order);
static void job(int j)
{
	if (j >= 32) { first_use_job((j - 32) / 4, (j - 32) % 4); return; }
	int codec = j / 8, fam = j % 8;
	unsigned char in[8300];
	int braw = ops[codec]->blocksize_raw;
	if (fam == 0) {
		/* all inputs of length 0,1,2 x all capacities 0..2*len+2 */
		for (size_t n = 0; n <= 2; n++) {
			long total = n == 0 ? 1 : n == 1 ? 256 : 65536;
			for (long v = 0; v < total; v++) {
				in[0] = v & 255; in[1] = v >> 8;
				for (size_t cap = 0; cap <= 2 * n + 2; cap++) { one(codec, in, n, cap); if (cap < ref_enclen(codec, n)) xp_count(K_SHORTCAP, 1); }
				check_decode_caps(codec, in, n);
			}
		}
		xp_sample("%s: all 65793 inputs of length 0..2 x capacities 0..2n+2, e.g. in=ff80 cap=3", cname[codec]);
	} else if (fam >= 1 && fam <= 3) {
		/* every adjacent pair (p,p+1), p = 0..blocksize, all 65536 values, background by family */
		unsigned char bg = fam == 1 ? 0x00 : fam == 2 ? 0xFF : 0x55;
		for (int p = 0; p <= braw; p++) {
			size_t n = p + 2 + 2;
			for (long v = 0; v < 65536; v++) {
				memset(in, bg, n);
				in[p] = v & 255; in[p + 1] = v >> 8;
				size_t full = ref_enclen(codec, n);
				one(codec, in, n, full);
				one(codec, in, n, full + 3);
				/* a capacity that cuts right after the pair */
				size_t cut = ref_enclen(codec, p + 2);
				one(codec, in, n, cut); one(codec, in, n, cut > 0 ? cut - 1 : 0);
				xp_count(K_SHORTCAP, 2);
			}
		}
		xp_sample("%s: pair positions 0..%d x 65536 values over background %02x", cname[codec], braw, bg);
	} else if (fam == 4) {
		/* every length 0..4096, four contents, full capacity and capacity = len (short) */
		int step = thorough ? 1 : 7;
		for (size_t n = 0; n <= 4096; n += (n < 80 ? 1 : step)) {
			for (int c = 0; c < 4; c++) {
				for (size_t i = 0; i < n; i++) in[i] = c == 0 ? 0 : c == 1 ? 0xFF : c == 2 ? (unsigned char)i : (unsigned char)(i * 107 + 13);
				size_t full = ref_enclen(codec, n);
				one(codec, in, n, full);
				one(codec, in, n, 2 * n + 2);
				if (n > 0) { one(codec, in, n, n); xp_count(K_SHORTCAP, 1); one(codec, in, n, full - 1); xp_count(K_SHORTCAP, 1); }
				if (c == 2 && (n % 512) == 0) check_decode_caps(codec, in, n > 600 ? 600 : n);
			}
		}
		xp_sample("%s: lengths 0..4096 step %d, contents 00/ff/counter/counter*107, caps full, 2n+2, n, full-1", cname[codec], step);
	} else if (fam == 5) {
		/* chunking contract: every (length<=72, capacity<=2*length+2) pair, three contents */
		for (size_t n = 1; n <= 72; n++)
			for (size_t cap = 0; cap <= 2 * n + 2; cap++)
				for (int c = 0; c < 3; c++) {
					for (size_t i = 0; i < n; i++) in[i] = c == 0 ? 0xFF : c == 1 ? (unsigned char)(i * 37 + 1) : (unsigned char)(255 - i * 3);
					one(codec, in, n, cap);
					if (cap >= 2) check_chunking(codec, in, n, cap);
				}
		xp_sample("%s: chunking contract for every length 1..72 x capacity 0..2n+2 x 3 contents", cname[codec]);
	}
}

/* First-use orders.  The codecs build their reverse tables lazily, on the first call that needs them; every job above runs in a
 * child of a process that has long made all kinds of calls.  Here the image's static storage is put back to what it was at
 * program start and the very first call is a decode, an encode, or (Base32) one of the single-character helpers; then a small
 * sweep must agree with the reference as everywhere else. */
static char *pristine_data, *pristine_bss;
__attribute__((no_sanitize_address)) static void rawcpy(char *d, const char *s, size_t n) { for (size_t i = 0; i < n; i++) ((volatile char *)d)[i] = s[i]; }
static void save_pristine(void)
{
	pristine_data = malloc(__stop_sdata - __start_sdata + 1); pristine_bss = malloc(__stop_sbss - __start_sbss + 1);
	rawcpy(pristine_data, __start_sdata, __stop_sdata - __start_sdata); rawcpy(pristine_bss, __start_sbss, __stop_sbss - __start_sbss);
}
static void first_use_job(int codec, int order)
{
	unsigned char in[64]; char enc[200]; unsigned char dec[200];
	rawcpy(__start_sdata, pristine_data, __stop_sdata - __start_sdata); rawcpy(__start_sbss, pristine_bss, __stop_sbss - __start_sbss);
	for (int i = 0; i < 40; i++) in[i] = (unsigned char)(i * 53 + 200);
	if (order == 0) {
		/* decode first: text produced by the reference encoder */
		size_t el = ref_encode(codec, in, 23, (unsigned char *)enc); enc[el] = 0;
		size_t dl = sizeof dec;
		int r = ops[codec]->decode(dec, &dl, enc, el);
		xp_count(K_CALLS, 1);
		if (r != 23 || memcmp(dec, in, 23)) fail(codec, "first-call-decode", in, 23, el, "the first call of the process is a decode of reference text: returned %d", r);
	} else if (order == 1) {
		size_t el = sizeof enc;
		ops[codec]->encode(enc, &el, in, 23);
		xp_count(K_CALLS, 1);
	} else if (order == 2 && codec == 0) {
		for (int v = 0; v < 32; v++) if (s_b32_8to5(s_b32_5to8(v)) != v) fail(codec, "first-call-5to8-8to5", in, 0, 0, "b32_8to5(b32_5to8(%d)) != %d as the first calls of the process", v, v);
	} else if (order == 3 && codec == 0) {
		for (int c = 0; c < 256; c++) { int v = s_b32_8to5(c); int want = (c >= 'a' && c <= 'z') ? c - 'a' : (c >= 'A' && c <= 'Z') ? c - 'A' : (c >= '0' && c <= '5') ? 26 + c - '0' : -999; if (want != -999 && v != want) fail(codec, "first-call-8to5", in, 0, 0, "b32_8to5('%c') = %d as the first call of the process, expected %d", c, v, want); }
	} else return;
	for (size_t n = 0; n <= 40; n++) for (int c = 0; c < 3; c++) {
		for (size_t i = 0; i < n; i++) in[i] = c == 0 ? 0xFF : c == 1 ? (unsigned char)(i * 37 + 1) : (unsigned char)(0x80 + i);
		one(codec, in, n, ref_enclen(codec, n)); one(codec, in, n, 2 * n + 2);
		check_decode_caps(codec, in, n);
	}
	if (codec == 0 && order == 0) xp_sample("first-use orders: static storage of the image reset to its start-up contents, then decode / encode / b32_8to5 / b32_5to8 as the very first call, then lengths 0..40 x 3 contents");
}

static void on_san(const char *sig)
{
	char s2[200];
	snprintf(s2, sizeof s2, "C07:sanitizer:%s", sig);
	xp_violation(s2, "sanitizer report inside codec call");
}

int main(int argc, char **argv)
{
	hc_args a = hc_parse(argc, argv, "C07");
	thorough = a.thorough;
	vw_init();
	W.hooks.on_sanitizer = on_san;
	ops[0] = &s_base32_ops; ops[1] = &s_base64_ops; ops[2] = &s_base64u_ops; ops[3] = &s_base128_ops;
	xp_init("C07", a.tier, 1024, a.budget_s);
	xp_guard("!C07", NULL, 0);
	save_pristine();                                        /* before the first call into the image */
	int rj = a.replay ? xp_load_replay(a.replay) : -1;      /* before the calibration: its violations replay too */
	for (int k = 0; k < 4; k++)
		if (!ref_calibrate(k, ops[k]->encode)) {
			char sig[80]; snprintf(sig, sizeof sig, "C07:%s:alphabet-not-documented-class", cname[k]);
			xp_violation(sig, "the 2^bits symbols are not a bijection onto the documented character class");
		}
	if (a.replay) {
		job(rj);
		return 0;
	}
	hc_quiet();
	xp_run_jobs(32 + 16, job, a.workers);
	char extra[200];
	snprintf(extra, sizeof extra, "\"cases\":%ld,\"real_calls\":%ld,\"short_capacity_cases\":%ld,\"chunk_runs\":%ld",
		 XS->counters[K_CASES], XS->counters[K_CALLS], XS->counters[K_SHORTCAP], XS->counters[K_CHUNKRUNS]);
	xp_print_stats(extra);
	return 0;
}
