/* E-A harness for C01 C02 C10 C14 C15 C16: real client(s) + real server, virtual network,
 * exhaustive per-datagram fates within a deviation bound.  ./ea --prop Cxx --tier quick|thorough */
#ifdef EA_TWO
#define NS_TWO_CLIENTS 1
#endif
#include "harness_common.h"
#include "netsim.h"
#include "refcodec.h"
#include "downdec.h"


static const char *PROP = "C01";
static int thorough;
enum { K_RC_RUNS = 13, K_RC_PROBES = 14, K_RC_CLEANFAIL = 15, K_SWEEP = 27 };
enum { K_CELLS, K_HSFAIL, K_DELIV_UP, K_DELIV_DOWN, K_REPEATS, K_DGRAMS, K_ANSWERS, K_PARSED, K_PENDING_MAX, K_DATAFRAGS, K_REDELIV, K_CACHEHITS, K_PROBES_OK, K_SANNOTES = 20 };

/* ---------------------------------------------------------------- cells */
typedef struct cell {
	int qt;        /* 0..6 NULL PRIVATE TXT SRV MX CNAME A ; 7 = auto */
	int de;        /* 0 auto, 1 T, 2 S, 3 U, 4 V, 5 R */
	int up;        /* relay class selecting the upstream codec: 0 none(Base128) 1 lower(Base32) 2 reject-8bit(Base64) 3 mangle-plus(Base64u) 4 id-rewrite only */
	int fs;        /* 0 auto, else forced fragsize */
	int ml;        /* maxlen */
	int lazy;
	int raw;
	int lat;       /* latency class */
	int warm;      /* warm-up prefix */
	int wl;        /* workload id */
	int two;
	int rl;        /* C11: index+1 into RELAYS[], 0 = relay class from `up` */
	int v6;        /* IPv6 transport between client and server */
	int pre;       /* slots taken by other parties before the client starts: the client's userid */
	int inj;       /* C02: the deviations are tun arrivals timed against the client's own datagrams (clean path otherwise) */
	int stale;     /* C01: one upstream fragment is duplicated and the copy arrives `stale` packets later; contents paired (see stale_workload) */
} cell;

static const char *QT[8] = { "NULL", "PRIVATE", "TXT", "SRV", "MX", "CNAME", "A", "" };
static const char *DE[6] = { "", "base32", "base64", "base64u", "base128", "raw" };
static const int FS[4] = { 0, 50, 200, 1200 };
static const int ML[3] = { 255, 100, 180 };
static const int LAT[6][2] = { { 3000, 3000 }, { 0, 0 }, { 30000, 30000 }, { 300000, 300000 }, { 3000, 300000 }, { 300000, 3000 } };

static cell CELLS[120000]; static int ncells;
static ns_relay RELAYS[120000]; static int nrelays;
static int BUDGET;           /* deviation bound for this run */
static int HORIZON_S = 14;

static void cell_to_cfg(const cell *c, ns_cfg *n)
{
	ns_defaults(n);
	n->qtype = QT[c->qt]; n->downenc = DE[c->de];
	n->lazy = c->lazy; n->fragsize = c->fs; n->maxlen = c->ml; n->raw = c->raw;
	n->lat_up = LAT[c->lat][0]; n->lat_down = LAT[c->lat][1];
	n->nclients = c->two ? 2 : 1;
	n->succession = c->two == 2;
	n->ipv6 = c->v6;
	n->preslots = c->pre;
	n->warm = c->warm;
	ns_relay *r = &n->relay;
	switch (c->up) {
	case 1: r->present = 1; r->idrewrite = 1; r->qcase = RC_LOWER; r->edns = 1; break;
	case 2: r->present = 1; r->idrewrite = 1; r->q8 = R8_REJECT; r->edns = 1; break;
	case 3: r->present = 1; r->idrewrite = 1; r->q8 = R8_REJECT; r->qpunct = RP_PLUS; r->edns = 1; break;
	case 4: r->present = 1; r->idrewrite = 1; r->edns = 1; break;
	}
	if (c->rl) *r = RELAYS[c->rl - 1];
}

static void cell_desc(const cell *c, char *b, size_t n)
{
	int k = snprintf(b, n, "T=%s O=%s up=%d m=%d M=%d lazy=%d raw=%d lat=%d/%d warm=%d wl=%d two=%d%s", c->qt == 7 ? "auto" : QT[c->qt], c->de ? DE[c->de] : "auto",
		 c->up, c->fs, c->ml, c->lazy, c->raw, LAT[c->lat][0], LAT[c->lat][1], c->warm, c->wl, c->two, c->v6 ? " ipv6" : "");
	if (c->pre && k < (int)n) k += snprintf(b + k, n - k, " slot=%d", c->pre);
	if (c->inj && k < (int)n) k += snprintf(b + k, n - k, " timed-tun-arrivals");
	if (c->stale && k < (int)n) k += snprintf(b + k, n - k, " first upstream fragment duplicated, copy %d packets late (packets %s apart), packets 0 and 8 Adler-paired", c->stale % 10, c->stale >= 10 ? "5 s" : "500 ms");
	if (c->rl && k < (int)n) {
		static const char *CS[] = { "keep", "lower", "upper", "random" }, *E8[] = { "clean", "strip", "reject" }, *PU[] = { "keep", "+->-", "_->-" };
		const ns_relay *r = &RELAYS[c->rl - 1];
		char ts[40] = ""; for (int i = 0; i < 7; i++) if (!r->types || (r->types & (1u << i))) { strcat(ts, i == 0 ? "N" : i == 1 ? "P" : i == 2 ? "T" : i == 3 ? "S" : i == 4 ? "M" : i == 5 ? "C" : "A"); }
		snprintf(b + k, n - k, " relay[queries: case %s, 8bit %s, punct %s; answers: case %s, 8bit %s, punct %s; types %s; limit %d; edns0 %s]", CS[r->qcase], E8[r->q8], PU[r->qpunct], CS[r->acase], E8[r->a8], PU[r->apunct], ts, r->limit, r->edns ? "honoured" : "ignored");
	}
}
static void describe_job(int job, char *b, size_t n) { if (job >= 0 && job < ncells) cell_desc(&CELLS[job], b, n); }

/* A forced downstream fragment size (-m) larger than what one CNAME/A answer can carry is a user
 * misconfiguration (the answer format silently truncates the fragment).  Such cells stay in the grid of
 * C01/C10/C14 (integrity and well-formedness must hold anyway) but not in C02/C15, whose oracles are about
 * a working, correctly sized transfer. */
static int exclude_oversized_fragsize;
static void add_cell(cell c)
{
	if (exclude_oversized_fragsize && (c.qt == 5 || c.qt == 6) && c.fs > 50) return;
	if (ncells < 120000) CELLS[ncells++] = c;
}

/* full product of the configuration grid */
static void cells_full(int wl, int lat)
{
	for (int qt = 0; qt < 7; qt++) for (int de = 0; de < 6; de++) for (int up = 0; up < 4; up++)
		for (int fs = 0; fs < 4; fs++) for (int ml = 0; ml < 3; ml++) for (int lazy = 1; lazy >= 0; lazy--) {
			if (de == 5 && !(qt == 0 || qt == 1 || qt == 2)) continue;      /* raw downstream only for NULL/PRIVATE/TXT */
			cell c = { qt, de, up, FS[fs], ML[ml], lazy, 0, lat, 0, wl, 0 };
			add_cell(c);
		}
	/* raw UDP mode (no relay in between): the handshake switches to raw frames after the login */
	for (int qt = 0; qt < 3; qt += 2) for (int lazy = 1; lazy >= 0; lazy--) { cell c = { qt, 0, 0, 0, 255, lazy, 1, lat, 0, wl, 0 }; add_cell(c); }
	/* IPv6 transport (the server listens on both families): DNS mode for four record types, and raw UDP mode */
	for (int qt = 0; qt < 6; qt++) for (int lazy = 1; lazy >= 0; lazy--) for (int raw = 0; raw < 2; raw++) {
		if (qt == 1 || qt == 3) continue;
		if (raw && qt != 0) continue;
		cell c = { qt, 0, 0, qt == 5 ? 50 : 0, 255, lazy, raw, lat, 0, wl, 0, 0, 1 };
		add_cell(c);
	}
}

/* pairwise-covering subset of the grid (greedy, deterministic) */
static void cells_pairwise(int wl, int lat)
{
	const int D = 6, card[6] = { 7, 6, 4, 4, 3, 2 };
	static unsigned char covered[6][6][8][8];
	memset(covered, 0, sizeof covered);
	int total = 0, done = 0;
	for (int a = 0; a < D; a++) for (int b = a + 1; b < D; b++) total += card[a] * card[b];
	unsigned seed = 12345;
	while (done < total) {
		int best[6] = { 0 }, bestgain = -1;
		for (int t = 0; t < 400; t++) {
			int v[6];
			for (int k = 0; k < D; k++) { seed = seed * 1103515245u + 12345u; v[k] = (seed >> 16) % card[k]; }
			if (v[1] == 5 && !(v[0] <= 2)) continue;
			int gain = 0;
			for (int a = 0; a < D; a++) for (int b = a + 1; b < D; b++) if (!covered[a][b][v[a]][v[b]]) gain++;
			if (gain > bestgain) { bestgain = gain; memcpy(best, v, sizeof best); }
		}
		if (bestgain <= 0) {
			/* remaining pairs may be infeasible (raw downenc with name-based types): count them as done */
			int left = 0;
			for (int a = 0; a < D; a++) for (int b = a + 1; b < D; b++) for (int x = 0; x < card[a]; x++) for (int y = 0; y < card[b]; y++)
				if (!covered[a][b][x][y]) { if (a == 0 && b == 1 && y == 5 && x > 2) { covered[a][b][x][y] = 1; done++; } else left++; }
			if (!left) break;
			continue;
		}
		for (int a = 0; a < D; a++) for (int b = a + 1; b < D; b++) if (!covered[a][b][best[a]][best[b]]) { covered[a][b][best[a]][best[b]] = 1; done++; }
		cell c = { best[0], best[1], best[2], FS[best[3]], ML[best[4]], 1 - best[5], 0, lat, 0, wl, 0 };
		add_cell(c);
	}
	{ cell c = { 0, 0, 0, 0, 255, 1, 1, lat, 0, wl, 0 }; add_cell(c); }      /* raw UDP mode */
	/* IPv6 transport: NULL lazy, TXT immediate, MX lazy, and raw UDP mode */
	{ cell c = { 0, 0, 0, 0, 255, 1, 0, lat, 0, wl, 0, 0, 1 }; add_cell(c); }
	{ cell c = { 2, 0, 0, 200, 255, 0, 0, lat, 0, wl, 0, 0, 1 }; add_cell(c); }
	{ cell c = { 4, 0, 0, 200, 255, 1, 0, lat, 0, wl, 0, 0, 1 }; add_cell(c); }
	{ cell c = { 0, 0, 0, 0, 255, 1, 1, lat, 0, wl, 0, 0, 1 }; add_cell(c); }
}

/* two real clients behind one server (ea2.c): client-to-client forwarding, two sessions' held queries */
static int add_relay(int qx, int ax, unsigned types, int limit, int edns);
static void cells_two(void)
{
	static const int QTS[] = { 0, 2, 4, 5, 1 };
	for (unsigned q = 0; q < sizeof QTS / sizeof QTS[0]; q++) for (int lazy = 1; lazy >= 0; lazy--) for (int f = 0; f < 2; f++) {
		cell c = { QTS[q], 0, 0, f ? 200 : 0, 255, lazy, 0, 0, 0, 2, 1 };
		if ((c.qt == 5) && c.fs > 50) c.fs = 50;
		add_cell(c);
	}
	/* both clients over IPv6 */
	for (int lazy = 1; lazy >= 0; lazy--) { cell c = { 0, 0, 0, lazy ? 0 : 200, 255, lazy, 0, 0, 0, 2, 1, 0, 1 }; add_cell(c); }
	/* succession: client A is cut off in mid-transfer, 65 s later client B logs in and inherits A's slot and tunnel address */
	for (unsigned q = 0; q < sizeof QTS / sizeof QTS[0]; q++) for (int lazy = 1; lazy >= 0; lazy--) for (int f = 0; f < 2; f++) {
		cell c = { QTS[q], 0, 0, f ? 200 : 0, 255, lazy, 0, 0, 0, 7, 2 };
		if ((c.qt == 5) && c.fs > 50) c.fs = 50;
		add_cell(c);
	}
	/* ... and B behind a path on which it settles for more modest codecs than A had: names folded to lower case (Base32 upstream,
	 * for which the client sends no switch request), and the same with answers folded too (Base32 downstream) */
	static int rl_both;
	if (!rl_both) rl_both = add_relay(1, 1, 0, 0, 1);
	for (unsigned q = 0; q < 3; q++) for (int lazy = 1; lazy >= 0; lazy--) for (int v = 0; v < 2; v++) {
		cell c = { QTS[q], 0, v ? 0 : 1, 0, 255, lazy, 0, 0, 0, 7, 2 };
		if (v) c.rl = rl_both;
		add_cell(c);
	}
}

/* ---------------------------------------------------------------- C11: relay family */
static int add_relay(int qx, int ax, unsigned types, int limit, int edns)
{
	ns_relay r; memset(&r, 0, sizeof r);
	r.present = 1; r.idrewrite = 1;
	r.qcase = qx % 4; r.q8 = (qx / 4) % 3; r.qpunct = qx / 12;
	r.acase = ax % 4; r.a8 = (ax / 4) % 3; r.apunct = ax / 12;
	r.types = types; r.limit = limit; r.edns = edns;
	RELAYS[nrelays++] = r;
	return nrelays;
}
static int c11_pre;
static void c11_cell(int qt, int de, int rl)
{
	cell c; memset(&c, 0, sizeof c);
	c.qt = qt; c.de = de; c.ml = 255; c.lazy = 1; c.wl = 5; c.rl = rl; c.pre = c11_pre;
	add_cell(c);
}
static void cells_c11(int thorough_)
{
	static const struct { int limit, edns; } LIM_Q[] = { { 0, 1 }, { 512, 1 } }, LIM_T[] = { { 0, 1 }, { 4096, 1 }, { 4096, 0 }, { 1232, 1 }, { 1232, 0 }, { 512, 1 } };
	unsigned sets[14]; int nsets = 0;
	for (int k = 1; k <= 7; k++) sets[nsets++] = (1u << k) - 1;                /* prefixes NULL..k */
	for (int k = 1; k <= 6; k++) sets[nsets++] = 0x7f & ~((1u << k) - 1);      /* suffixes k..A */
	if (!thorough_) {
		for (int x = 0; x < 36; x++) for (int s_ = 0; s_ < nsets; s_++) for (int l = 0; l < 2; l++) c11_cell(7, 0, add_relay(x, x, sets[s_], LIM_Q[l].limit, LIM_Q[l].edns));
		/* forced type and downstream codec through the diagonal relays */
		for (int qt = 0; qt < 7; qt++) for (int de = 1; de <= 5; de++) { if (de == 5 && qt > 2) continue; for (int x = 0; x < 36; x += 5) c11_cell(qt, de, add_relay(x, x, 0, 512, 1)); }
		/* the client is not the server's first: userids 9, 10 and 15 (the userid travels as a hex digit in data queries and as a raw byte, Base32-coded, elsewhere) */
		for (int pre = 9; pre <= 15; pre += (pre == 9 ? 1 : 5)) { c11_pre = pre; for (int x = 0; x < 36; x++) for (int l = 0; l < 2; l++) c11_cell(7, 0, add_relay(x, x, 0, LIM_Q[l].limit, LIM_Q[l].edns)); }
		c11_pre = 0;
		/* relays that honour EDNS0 per query: a query carrying the OPT record is answered up to the relay's limit, one without it
		 * up to 512 bytes (seeded C11-h: pings sent without OPT while the probes carry it), and relays that ignore it */
		for (int x = 0; x < 36; x++) for (int l = 1; l < 5; l++) c11_cell(7, 0, add_relay(x, x, 0, LIM_T[l].limit, LIM_T[l].edns));
		return;
	}
	for (int qx = 0; qx < 36; qx++) for (int ax = 0; ax < 36; ax++) for (int t = 0; t < 7; t++) for (int l = 0; l < 6; l++) c11_cell(7, 0, add_relay(qx, ax, 1u << t, LIM_T[l].limit, LIM_T[l].edns));
	for (int x = 0; x < 36; x++) for (unsigned set = 1; set < 128; set++) for (int l = 0; l < 6; l += 5) c11_cell(7, 0, add_relay(x, x, set, LIM_T[l].limit, LIM_T[l].edns));
	for (int qt = 0; qt < 7; qt++) for (int de = 1; de <= 5; de++) { if (de == 5 && qt > 2) continue; for (int x = 0; x < 36; x++) for (int l = 0; l < 6; l += 5) c11_cell(qt, de, add_relay(x, x, 0, LIM_T[l].limit, LIM_T[l].edns)); }
	/* every userid 1..15 through every diagonal relay, and 10/15 through the full query x answer product */
	for (int pre = 1; pre <= 15; pre++) { c11_pre = pre; for (int x = 0; x < 36; x++) for (int l = 0; l < 6; l += 5) c11_cell(7, 0, add_relay(x, x, 0, LIM_T[l].limit, LIM_T[l].edns)); }
	for (int pre = 10; pre <= 15; pre += 5) { c11_pre = pre; for (int qx = 0; qx < 36; qx++) for (int ax = 0; ax < 36; ax++) c11_cell(7, 0, add_relay(qx, ax, 0, 0, 1)); }
	c11_pre = 0;
}

/* ---------------------------------------------------------------- workload */
typedef struct wpk { int side; int size; int at_ms; int compressible; int dst; } wpk;    /* side 1 = client A tun, 0 = server tun, 2 = client B; dst: tunnel address (host order) */
#define A_SRV 0x0A000001u
#define A_CLA 0x0A000002u
#define A_CLB 0x0A000003u
#define A_OUT 0x08080808u
#define WDST(d) ((d) == A_CLA ? A_CLA + (uint32_t)NC.preslots : (d))     /* client A's tunnel address follows its slot */
static const wpk WL0[] = { { 1, 60, 100, 0, A_SRV }, { 0, 1100, 150, 0, A_CLA }, { 1, 1100, 160, 0, A_SRV }, { 0, 200, 170, 1, A_CLA }, { 1, 200, 1500, 1, A_SRV }, { 0, 19, 1600, 0, A_CLA },
	/* larger than any fixed 4 KB buffer on the way, compressible enough to fit 16 fragments everywhere */
	{ 1, 5000, 1700, 1, A_SRV }, { 0, 5000, 1800, 1, A_CLA }, { 0, 20000, 2600, 1, A_CLA }, { 1, 20000, 2700, 1, A_SRV },
	/* incompressible and larger than one raw UDP datagram (4096 bytes): cannot be carried, must be dropped, never delivered damaged */
	{ 1, 6000, 3200, 0, A_SRV }, { 0, 6000, 3300, 0, A_CLA }, { 1, 100, 3600, 0, A_SRV }, { 0, 100, 3700, 0, A_CLA } };
static const wpk WL1[] = { { 1, 1100, 100, 0, A_SRV }, { 1, 1100, 110, 0, A_SRV }, { 0, 1100, 120, 0, A_CLA }, { 0, 1100, 121, 0, A_CLA }, { 0, 1100, 122, 0, A_CLA }, { 0, 60, 123, 0, A_CLA },
	{ 0, 60, 124, 0, A_CLA }, { 0, 60, 125, 0, A_CLA }, { 1, 1, 2500, 0, A_SRV }, { 1, 4000, 3000, 0, A_SRV }, { 0, 4000, 3500, 0, A_CLA }, { 1, 20, 6000, 0, A_SRV } };
static const wpk WL2[] = { { 1, 700, 100, 0, A_CLB }, { 2, 300, 200, 0, A_CLA }, { 0, 500, 300, 0, A_CLB }, { 1, 64, 900, 1, A_SRV }, { 2, 1100, 1000, 0, A_SRV }, { 0, 64, 1100, 0, A_OUT },
	/* client-to-client packets that arrive while the receiving session has a downstream packet in flight (they wait in its queue) */
	{ 0, 3000, 2000, 0, A_CLB }, { 1, 300, 2002, 0, A_CLB }, { 1, 64, 2004, 1, A_CLB }, { 0, 3000, 2500, 0, A_CLA }, { 2, 300, 2502, 0, A_CLA }, { 0, 80, 2504, 0, A_CLA },
	/* bursts from the server's tun for one client while the other one is idle: the server keeps reading and fills that client's queue
	 * (one packet in flight + four queued), first three packets, then exactly five */
	{ 0, 64, 4000, 1, A_CLA }, { 0, 65, 4001, 1, A_CLA }, { 0, 66, 4002, 1, A_CLA },
	{ 0, 70, 4400, 1, A_CLA }, { 0, 71, 4401, 1, A_CLA }, { 0, 72, 4402, 1, A_CLA }, { 0, 73, 4403, 1, A_CLA }, { 0, 74, 4404, 1, A_CLA } };
/* C02 clean path: four per direction, back-to-back and spaced, all sizes that fit 16 fragments in most cells */
static const wpk WL3[] = { { 1, 40, 100, 0, A_SRV }, { 1, 300, 101, 0, A_SRV }, { 0, 40, 102, 0, A_CLA }, { 0, 300, 103, 0, A_CLA }, { 1, 64, 2000, 1, A_SRV }, { 0, 64, 2100, 1, A_CLA },
	{ 1, 500, 4000, 0, A_SRV }, { 0, 500, 4001, 0, A_CLA } };
/* C11: large packets both ways at the same time (full upstream chunk answered by a full downstream fragment), then small, then large again */
static const wpk WL5[] = { { 1, 1100, 100, 0, A_SRV }, { 0, 1100, 100, 0, A_CLA }, { 1, 60, 4000, 0, A_SRV }, { 0, 60, 4100, 0, A_CLA }, { 1, 1100, 7000, 0, A_SRV }, { 0, 1100, 7001, 0, A_CLA } };
/* C16: multi-fragment packets both ways so that a double append or a double ack would land in mid-packet */
static const wpk WL6[] = { { 1, 700, 100, 0, A_SRV }, { 0, 700, 150, 0, A_CLA }, { 1, 300, 1200, 0, A_SRV }, { 0, 300, 1250, 0, A_CLA }, { 1, 200, 5000, 0, A_SRV }, { 0, 200, 5050, 0, A_CLA } };
/* second session in a re-used slot (succession cells): client B has A's old tunnel address */
static const wpk WL7[] = { { 2, 60, 100, 0, A_SRV }, { 0, 1100, 150, 0, A_CLA }, { 2, 1100, 160, 0, A_SRV }, { 0, 200, 170, 1, A_CLA }, { 2, 300, 1500, 0, A_SRV }, { 0, 300, 1600, 0, A_CLA },
	{ 2, 64, 2500, 1, A_SRV }, { 0, 64, 2600, 1, A_CLA } };
static const struct { const wpk *p; int n; } WLS[9] = { { WL0, 14 }, { WL1, 12 }, { WL2, 20 }, { WL3, 8 }, { WL0, 0 }, { WL5, 6 }, { WL6, 6 }, { WL7, 8 }, { WL0, 0 } };

static int up_chunk_cap, down_frag_cap;
static int WL_MUST[NS_MAXPK];   /* bytes per upstream query / downstream fragment in this cell */

static void offer_workload(int wl, int64_t t0)
{
	unsigned char p[70000];
	for (int i = 0; i < WLS[wl].n; i++) {
		const wpk *w = &WLS[wl].p[i];
		int n = ns_mkpkt(p, w->size, WDST(w->dst), i + 1, w->compressible);
		int tun = w->side == 0 ? ns_srv_tun : ns_cli_tun[w->side];
		vw_tun_offer_at(tun, t0 + (int64_t)w->at_ms * 1000, p, n, i + 1);
	}
}

/* C02, timing of tun arrivals: the path stays clean; the one deviation of an execution is a pair of small packets arriving on
 * the client's and on the server's tun device 1, 4 or 12 ms (or not at all on one side) after some datagram the client sends.
 * Three queries can then be in flight at once (keep-alive ping, data query, and the held one the server answers), which a
 * workload with fixed times reaches only by luck.  Every accepted packet must still arrive once and in order. */
#define NINJ 16
static const int INJ_MS[4] = { -1, 1, 4, 12 };
static int64_t inj_until; static int inj_done; static char inj_desc[200];
static int inject_fate(int d, int to_server)
{
	(void)d;
	if (!to_server || inj_done || W.now > inj_until || XC.budget < 1) return 0;
	int costs[NINJ]; costs[0] = 0; for (int i = 1; i < NINJ; i++) costs[i] = 1;
	int alt = xp_choose(NINJ, costs);
	if (alt > 0) {
		unsigned char p[200];
		int dc = INJ_MS[alt & 3], ds = INJ_MS[alt >> 2];
		inj_done = 1;
		if (dc >= 0) { int n = ns_mkpkt(p, 80, A_SRV, 900, 0); WL_MUST[900] = 1; vw_tun_offer_at(ns_cli_tun[1], W.now + dc * 1000, p, n, 900); }
		if (ds >= 0) { int n = ns_mkpkt(p, 70, WDST(A_CLA), 901, 0); WL_MUST[901] = 1; vw_tun_offer_at(ns_srv_tun, W.now + ds * 1000, p, n, 901); }
		snprintf(inj_desc, sizeof inj_desc, " + packets arriving on the client's tun %d ms and on the server's tun %d ms after the client's datagram at t=%.3f (-1: none)", dc, ds, W.now / 1e6);
		if (ns_trace) printf("    tun arrivals: client +%d ms, server +%d ms\n", dc, ds);
	}
	return 0;
}
static void cells_inject(void)
{
	static const int QTS[] = { 0, 2, 5 };
	for (unsigned q = 0; q < 3; q++) for (int lazy = 1; lazy >= 0; lazy--) for (int lat = 0; lat <= 2; lat += 2) {
		cell c; memset(&c, 0, sizeof c);
		c.qt = QTS[q]; c.ml = 255; c.lazy = lazy; c.lat = lat; c.wl = 3; c.inj = 1;
		if (c.qt == 5) c.fs = 50;
		add_cell(c);
	}
	/* raw UDP mode */
	{ cell c; memset(&c, 0, sizeof c); c.ml = 255; c.lazy = 1; c.raw = 1; c.lat = 2; c.wl = 3; c.inj = 1; add_cell(c); }
}

/* C01, stale duplicates with adversarial contents.  The property quantifies over all packet contents and over duplication with
 * bounded delay.  Nine two-fragment upstream packets, 500 ms apart; packet 8 re-uses the 3-bit sequence number of packet 0 and
 * is packet 0 with three consecutive bytes of its first fragment changed by +1, -2, +1 (which leaves zlib's Adler-32 of any
 * stream containing them unchanged) and a different second half; all are incompressible (stored deflate blocks, equal lengths).
 * The one deviation: the query carrying fragment 0 of packet 0 is duplicated and the copy arrives k packets later (k = 2..8).
 * If the server ever joins the stale first fragment with the second fragment of packet 8, the result inflates without error
 * and is a packet nobody sent. */
static int stale_k; static int stale_done; static int64_t stale_gap_us = 500000;
static int stale_fate(int d, int to_server)
{
	vw_dgram *g = &W.dg[d];
	if (!to_server || stale_done || g->len < 20) return 0;
	if (g->len >= 3 && g->data[0] == 0x10 && g->data[1] == 0xd1 && g->data[2] == 0x9e) return 0;
	/* first upstream data query after the workload has started: first label begins with the userid hex digit */
	int c = g->data[13];
	if (!isxdigit(c)) return 0;
	stale_done = 1;
	int si = vw_sock_find(&g->dst);
	if (si < 0) return 0;
	int cl = vw_dgram_clone(d);
	vw_deliver_at(cl, si, W.now + NC.lat_up + (int64_t)stale_k * stale_gap_us - 150000);
	if (ns_trace) printf("    fate: duplicate delivered %d packets later\n", stale_k);
	return 0;
}
static void stale_workload(int64_t t0)
{
	static unsigned char p[9][4000]; int n = 0;
	int size = up_chunk_cap + up_chunk_cap / 2 - 15;          /* compressed = frame + 11: about 1.5 upstream queries */
	if (size < 60) size = 60; if (size > 3000) size = 3000;
	for (int i = 0; i < 9; i++) {
		n = ns_mkpkt(p[i], size, A_SRV, 700 + i, 0);
		WL_MUST[700 + i] = 0;           /* drops are allowed here; only fabrication is judged */
	}
	/* packet 8 = packet 0 with an Adler-neutral change inside the first fragment and a different tail */
	memcpy(p[8], p[0], n);
	p[0][40] = 100; p[0][41] = 100; p[0][42] = 100;
	p[8][40] = 101; p[8][41] = 98; p[8][42] = 101;
	for (int k = n - 12; k < n; k++) p[8][k] ^= 0x3c;
	for (int i = 0; i < 9; i++) vw_tun_offer_at(ns_cli_tun[1], t0 + 100000 + (int64_t)i * stale_gap_us, p[i], n, 700 + i);
}
static void cells_stale(int full)
{
	static const int QTS[] = { 0, 2, 5, 4 };
	for (unsigned q = 0; q < (full ? 4u : 3u); q++) for (int lazy = 1; lazy >= 0; lazy--) for (int up = 0; up < (full ? 4 : 2); up++) for (int k = 2; k <= 8; k++) {
		cell c; memset(&c, 0, sizeof c);
		c.qt = QTS[q]; c.ml = 255; c.lazy = lazy; c.up = up; c.wl = 8; c.stale = k;
		if (c.qt == 5) c.fs = 50;
		add_cell(c);
		/* the same with 5 s between the packets: a packet the server refuses is given up by the client before the next one is offered */
		if (up == 0 || full) { c.stale = 10 + k; add_cell(c); }
	}
}

/* C11: packets cut to sit on the fragment boundaries of the settings the handshake settled on: compressed length k * capacity - 1,
 * + 0, + 1, + 2 for k = 1, 2, in each direction (capacity = bytes per downstream fragment / per upstream query as measured after
 * the handshake).  Incompressible contents, so the compressed length is the frame length plus zlib's 11 bytes. */
static int sweep_follow;       /* C15: each downstream boundary packet is followed 1 ms later by a small one (it waits in the session's queue) */
static int offer_boundary_sweep(int first_tag, int64_t t0)
{
	static unsigned char p[70000];
	int tag = first_tag;
	for (int dir = 0; dir < (sweep_follow ? 1 : 2); dir++) {
		int cap = dir == 0 ? down_frag_cap : up_chunk_cap;
		if (cap < 8 || cap > 2000) continue;
		for (int k = 1; k <= 2; k++) for (int r = -1; r <= 2; r++) {
			int target = k * cap + r, found = 0;
			for (int iplen = target - 30 < 20 ? 20 : target - 30; iplen <= target && !found; iplen++) {
				int n = ns_mkpkt(p, iplen, dir == 0 ? WDST(A_CLA) : A_SRV, tag, 0);
				if (ns_compressed_len(p, n) == target) {
					WL_MUST[tag] = 1;
					vw_tun_offer_at(dir == 0 ? ns_srv_tun : ns_cli_tun[1], t0 + (int64_t)(tag - first_tag) * 600000, p, n, tag);
					if (sweep_follow && tag + 40 < NS_MAXPK) { int n2 = ns_mkpkt(p, 60, WDST(A_CLA), tag + 40, 0); WL_MUST[tag + 40] = 0; vw_tun_offer_at(ns_srv_tun, t0 + (int64_t)(tag - first_tag) * 600000 + 1000, p, n2, tag + 40); }
					found = 1;
				}
			}
			if (found && tag < NS_MAXPK - 1) tag++;
		}
	}
	return tag - first_tag;
}

/* ---------------------------------------------------------------- violations */
static void viol(const char *what, const char *fmt, ...)
{
	if (hc_san_as) return;
	char detail[360], sig[120];
	va_list ap; va_start(ap, fmt); vsnprintf(detail, sizeof detail, fmt, ap); va_end(ap);
	snprintf(sig, sizeof sig, "%s:%s", PROP, what);
	xp_violation(sig, "%s", detail);
}

static int cur_stale;
static void core_viol(const char *sig, const char *detail)
{
	if (strcmp(PROP, "C01")) return;
	if (cur_stale) { char s2[120]; snprintf(s2, sizeof s2, "%s:upstream-fragment-duplicated-and-%d-packets-late", sig, cur_stale);      /* cur_stale = k, whatever the spacing */ viol(s2, "%s", detail); }
	else viol(sig, "%s", detail);
}
static void on_san(const char *sig) { if (hc_san_report(sig, W.cur, "the netsim exploration (real client and server)")) return; xp_count(K_SANNOTES, 1); }

/* ---------------------------------------------------------------- C10 / C14 monitor: queries received vs answers emitted */
#define MAXPEND 512
typedef struct pend { int used; struct sockaddr_storage src; int id; unsigned char qname[256]; int qnlen; int qtype; int64_t at; int ignorable; } pend;
static pend PEND[MAXPEND];
static int want_c10, want_c14, want_c15;

static int is_raw_frame(const unsigned char *d, int len) { return len >= 4 && d[0] == 0x10 && d[1] == 0xd1 && d[2] == 0x9e; }

/* ---- C16 (E-A part): at every query the server receives from the real client, re-deliver one of the last eight
 * queries it has received - unchanged, with a fresh DNS id, upper-cased, or with a fresh id from a second relay port.
 * One re-delivery per execution (deviation bound 1). */
static int want_c16;
typedef struct c16pos { int in_seq, in_frag, in_len, in_off, out_seq, out_frag, out_off, out_sent, out_len, q_next, q_filled; uint64_t inh[2]; } c16pos;
static struct { int len; unsigned char d[700]; } C16RING[8]; static int c16_nring;
static int64_t c16_inject_at;
static int c16_inject_seq = -1, c16_await_after; static c16pos c16_before; static char c16_desc[120];
static void c16_getpos(c16pos *p)
{
	struct tun_user *u = &s_w_users()[NC.preslots];
	memset(p, 0, sizeof *p);
	p->in_seq = u->inpacket.seqno; p->in_frag = u->inpacket.fragment; p->in_len = u->inpacket.len; p->in_off = u->inpacket.offset;
	p->out_seq = u->outpacket.seqno; p->out_frag = u->outpacket.fragment; p->out_off = u->outpacket.offset; p->out_sent = u->outpacket.sentlen; p->out_len = u->outpacket.len;
	p->q_next = u->outpacketq_nexttouse; p->q_filled = u->outpacketq_filled;
	h128 h; h128_init(&h); int n = u->inpacket.offset; if (n < 0) n = 0; if (n > (int)sizeof u->inpacket.data) n = sizeof u->inpacket.data;
	h128_update(&h, u->inpacket.data, n); h128_final(&h, p->inh);
}

static void c16_on_srv_recv(int di)
{
	vw_dgram *g = &W.dg[di];
	if (g->seq == c16_inject_seq) { c16_getpos(&c16_before); c16_await_after = 1; return; }
	if (g->len < 17 || g->len > 700 || is_raw_frame(g->data, g->len) || (g->data[2] & 0x80)) return;
	int c = tolower(g->data[13]);
	if (!(c == 'p' || isxdigit(c))) return;                 /* pings and data queries only */
	memmove(&C16RING[1], &C16RING[0], sizeof C16RING[0] * 7);
	C16RING[0].len = g->len; memcpy(C16RING[0].d, g->data, g->len);
	if (c16_nring < 8) c16_nring++;
	if (!ns_choices_on) return;
	static const char *VN[4] = { "unchanged", "with a fresh DNS id", "upper-cased", "with a fresh DNS id from a second relay port" };
	int costs[33]; costs[0] = 0; for (int i = 1; i <= c16_nring * 4; i++) costs[i] = 1;
	int alt = xp_choose(1 + c16_nring * 4, costs);
	if (!alt) return;
	int k = (alt - 1) / 4, v = (alt - 1) % 4;
	unsigned char pkt[700]; int len = C16RING[k].len;
	memcpy(pkt, C16RING[k].d, len);
	struct sockaddr_storage src = g->src;
	if (v == 1 || v == 3) { int id = (((pkt[0] << 8) | pkt[1]) ^ 0x3c3c) ? (((pkt[0] << 8) | pkt[1]) ^ 0x3c3c) : 0x1234; pkt[0] = id >> 8; pkt[1] = id; }
	if (v == 2) for (int i = 1; i <= pkt[12] && 12 + i < len; i++) pkt[12 + i] = toupper(pkt[12 + i]);
	if (v == 3) ((struct sockaddr_in *)&src)->sin_port = htons(47777);
	int cdg = vw_dgram_new(&src, g->srclen, &g->dst, g->dstlen, pkt, len, -1);
	c16_inject_seq = W.dg[cdg].seq; c16_inject_at = W.now;
	snprintf(c16_desc, sizeof c16_desc, "re-delivery of the query received %d before the current one, %s", k, VN[v]);
	vw_deliver_at(cdg, ns_srv_sock, W.now + 1);
	xp_count(K_REDELIV, 1);
	if (ns_trace) printf("    C16: %s\n", c16_desc);
}

static void mon_srv_recv(int proc, int di)
{
	if (proc != 0) return;
	if (want_c16) c16_on_srv_recv(di);
	vw_dgram *g = &W.dg[di];
	if (is_raw_frame(g->data, g->len)) return;
	static rd_msg m; char err[128];
	if (rd_parse(g->data, g->len, &m, err) || m.qr) return;     /* not a query the server can answer */
	for (int i = 0; i < MAXPEND; i++) if (!PEND[i].used) {
		pend *p = &PEND[i];
		p->used = 1; memcpy(&p->src, &g->src, sizeof p->src); p->id = m.id; p->qnlen = m.qnamelen; memcpy(p->qname, m.qname, m.qnamelen);
		p->qtype = m.qtype; p->at = W.now;
		p->ignorable = (m.id == 0);
		return;
	}
}

static void c15_on_answer(const rd_msg *m, const unsigned char *msg, int len, int sess);
static void c15_on_query(const rd_msg *m, int sess);
static int sess_of_addr(const struct sockaddr_storage *a)
{
	/* session = client process behind that address (relay back address counts as the client(s) behind it) */
	if (vw_addr_eq(a, &ns_cli_addr[1])) return 1;
	if (vw_addr_eq(a, &ns_cli_addr[2])) return 2;
	if (vw_addr_eq(a, &ns_relay_back)) return 1;
	return 0;
}

static void mon_send(int d, int from, int to_server)
{
	vw_dgram *g = &W.dg[d];
	xp_count(K_DGRAMS, 1);
	if (is_raw_frame(g->data, g->len)) return;
	static rd_msg m; char err[128];
	int bad = rd_parse(g->data, g->len, &m, err);
	if (want_c10) {
		if (bad) { viol("malformed-message", "%s emitted a malformed DNS message (%d bytes): %s", from == 0 ? "server" : "client", g->len, err); return; }
		xp_count(K_PARSED, 1);
	}
	if (bad) return;
	if (from != 0) { if (want_c15) c15_on_query(&m, from); return; }
	if (!m.qr) { if (want_c10) viol("server-sent-query", "server emitted a message with QR=0"); return; }
	xp_count(K_ANSWERS, 1);
	/* pair with a pending query: same requester, id, question name (byte-exact), type */
	int found = -1;
	for (int i = 0; i < MAXPEND; i++) {
		pend *p = &PEND[i];
		if (!p->used || p->id != m.id || p->qtype != m.qtype || p->qnlen != m.qnamelen) continue;
		if (!vw_addr_eq(&p->src, &g->dst)) continue;
		if (memcmp(p->qname, m.qname, m.qnamelen)) continue;
		if (found < 0 || p->at < PEND[found].at) found = i;
	}
	if (found < 0) {
		char nm[300]; rd_name_to_dotted(m.qname, m.qnamelen, nm, sizeof nm); nm[40] = 0;
		if (want_c14) viol("unsolicited-or-surplus-answer", "server sent an answer (id %d type %d name %s..) to %s that matches no unanswered query from that address", m.id, m.qtype, nm, vw_addr_str(&g->dst));
		if (want_c10) viol("answer-does-not-echo-question", "answer id %d type %d name %s.. has no received query with that id, name and type from %s", m.id, m.qtype, nm, vw_addr_str(&g->dst));
		return;
	}
	PEND[found].used = 0;
	if (want_c15) c15_on_answer(&m, g->data, g->len, sess_of_addr(&g->dst));
}

/* C14 lazy bound: at every select() of the server */
static void after_run(int proc)
{
	if (proc == 0 && want_c16 && c16_await_after && W.proc[0].state == VW_P_SELECT) {
		c16pos a; c16_getpos(&a);
		c16_await_after = 0;
		xp_count(K_CACHEHITS, 1);
		if (memcmp(&a, &c16_before, sizeof a))
			viol("redelivery-moved-the-stream", "%s: upstream position (seq %d frag %d len %d off %d) -> (%d %d %d %d), downstream (seq %d frag %d off %d sent %d len %d, queue %d+%d) -> (%d %d %d %d %d, %d+%d)%s", c16_desc,
			     c16_before.in_seq, c16_before.in_frag, c16_before.in_len, c16_before.in_off, a.in_seq, a.in_frag, a.in_len, a.in_off,
			     c16_before.out_seq, c16_before.out_frag, c16_before.out_off, c16_before.out_sent, c16_before.out_len, c16_before.q_next, c16_before.q_filled,
			     a.out_seq, a.out_frag, a.out_off, a.out_sent, a.out_len, a.q_next, a.q_filled, memcmp(a.inh, c16_before.inh, 16) ? ", reassembled bytes changed" : "");
	}
	if (proc != 0 || !want_c14) return;
	if (W.proc[0].state != VW_P_SELECT) return;
	for (int sess = 1; sess <= 2; sess++) {
		/* distinct (name,type) pending tunnel queries of this session */
		int distinct = 0; int idx[MAXPEND];
		for (int i = 0; i < MAXPEND; i++) {
			pend *p = &PEND[i];
			if (!p->used || p->ignorable || sess_of_addr(&p->src) != sess) continue;
			int dup = 0;
			for (int k = 0; k < distinct; k++) { pend *q = &PEND[idx[k]]; if (q->qtype == p->qtype && q->qnlen == p->qnlen && !memcmp(q->qname, p->qname, p->qnlen)) { dup = 1; break; } }
			if (!dup) idx[distinct++] = i;
		}
		if (distinct > XS->counters[K_PENDING_MAX]) XS->counters[K_PENDING_MAX] = distinct;
		if (distinct > 2) {
			char nm[300]; rd_name_to_dotted(PEND[idx[0]].qname, PEND[idx[0]].qnlen, nm, sizeof nm); nm[30] = 0;
			viol("more-than-two-held-queries", "server blocks in select() with %d distinct unanswered queries of session %d (oldest %s.. received at %.3f, now %.3f)", distinct, sess, nm, PEND[idx[0]].at / 1e6, W.now / 1e6);
		}
	}
}

/* ---------------------------------------------------------------- C15 */
#define FM_COUNT_FRAG() xp_count(K_DATAFRAGS, 1)
#include "fragmon.h"

/* ---------------------------------------------------------------- state key for pruning */
static void state_key(uint64_t k[2])
{
	uint64_t w[2];
	vw_hash_world(w, 1);
	h128 h; h128_init(&h);
	h128_update(&h, w, sizeof w);
	ns_hash_extra(&h);
	h128_update(&h, &XC.budget, sizeof XC.budget);
	for (int i = 0; i < MAXPEND; i++) if (PEND[i].used) { h128_update(&h, &PEND[i].id, 4); h128_update(&h, PEND[i].qname, PEND[i].qnlen); }
	h128_update(&h, FST, sizeof FST);
	h128_final(&h, k);
}

/* ---------------------------------------------------------------- one execution */
static int run_to_horizon(int64_t until, long stepcap)
{
	long n = 0;
	while (n < stepcap) {
		int64_t t = vw_next_time();
		if (t == VW_NEVER || t > until) break;
		if (!vw_step()) break;
		n++;
	}
	__atomic_fetch_add(&XS->steps, n, __ATOMIC_RELAXED);
	if (n >= stepcap) { __atomic_fetch_add(&XS->cap_hits, 1, __ATOMIC_RELAXED); return -1; }
	return 0;
}

/* C02 clean-path oracle: on each side the sequence of tun writes (restricted to packets that must be
 * delivered) equals the sequence of packets the peer accepted: exactly once, in order. */
static void end_of_run_c02_clean(const cell *c, const char *desc)
{
	for (int dst = 0; dst <= 2; dst++) {
		int exp[NS_MAXPK], ne = 0, got[NS_MAXPK], ng = 0;
		for (int i = 0; i < ns_nrd; i++) if (ns_rd[i].accepted && ns_rd[i].must && ns_rd[i].dstproc == dst && ns_rd[i].proc != dst) exp[ne++] = i;
		for (int i = 0; i < ns_nwr; i++) if (ns_wr[i].proc == dst && ns_wr[i].matched >= 0 && ns_rd[ns_wr[i].matched].must) got[ng++] = ns_wr[i].matched;
		/* per source side the order must be kept; with one peer per direction compare directly, with two sources compare per source */
		for (int src = 0; src <= 2; src++) {
			int e2[NS_MAXPK], n2 = 0, g2[NS_MAXPK], m2 = 0;
			for (int i = 0; i < ne; i++) if (ns_rd[exp[i]].proc == src) e2[n2++] = exp[i];
			for (int i = 0; i < ng; i++) if (ns_rd[got[i]].proc == src) g2[m2++] = got[i];
			int same = n2 == m2;
			for (int i = 0; same && i < n2; i++) if (e2[i] != g2[i]) same = 0;
			if (!same) {
				char a[120] = "", b[120] = "";
				for (int i = 0; i < n2 && i < 12; i++) sprintf(a + strlen(a), "%d ", ns_rd[e2[i]].tag);
				for (int i = 0; i < m2 && i < 12; i++) sprintf(b + strlen(b), "%d ", ns_rd[g2[i]].tag);
				char what[160];
				snprintf(what, sizeof what, "%s", m2 < n2 ? "accepted-packet-not-delivered-on-clean-path" : "packet-repeated-or-reordered-on-clean-path");
				if (!strcmp(PROP, "C11")) {
					/* name the negotiated settings and the answer-side transformation: one signature per root cause */
					static const char *PU[] = { "keep", "plus", "underscore" }, *E8[] = { "clean", "strip", "reject" }, *CS[] = { "keep", "lower", "upper", "random" };
					const ns_relay *r = &NC.relay;
					size_t k = strlen(what);
					/* root cause classes: which codec is in use in the direction the relay transforms, and how */
					snprintf(what + k, sizeof what - k, ":%s:down-%c:answers-%s-%s-%s", (c->de == 0) ? "autodetected" : "forced", ca_w_downenc() > ' ' ? ca_w_downenc() : 'T',
						 CS[r->acase], E8[r->a8], PU[r->apunct]);
				}
				viol(what, "clean path, %s: packets accepted from proc %d for proc %d: [%s] delivered: [%s]", desc, src, dst, a, b);
			}
		}
	}
	/* no wedge: whatever was offered (every workload packet was offered more than 3 s before the horizon) has at least been
	 * read from the tun device; a program that stops reading its tun for good makes no progress however clean the path */
	for (int t = 0; t < VW_MAXTUN; t++) {
		vw_tun *tn = &W.tun[t];
		if (!tn->used || !vw_alive(tn->proc) || tn->rxn <= 0) continue;
		viol("offered-packets-never-read-on-clean-path", "clean path, %s: %d packets (first tag %d) are still waiting on the tun device of proc %d at the horizon", desc, tn->rxn, tn->rx[tn->rxh & 63].tag, tn->proc);
	}
	(void)c;
}

static void install_hooks(void)
{
	W.hooks.on_recv = mon_srv_recv;
	W.hooks.after_run = after_run;
	W.hooks.on_sanitizer = on_san;
}

/* capacity of one upstream query / downstream fragment in the booted cell */
static void measure_caps(void)
{
	char buf[4096]; static char data[4096];
	const struct encoder *e = NULL;
	const char *dn = ca_w_dataenc_name();
	e = !strcmp(dn, "Base32") ? &ca_base32_ops : !strcmp(dn, "Base64") ? &ca_base64_ops : !strcmp(dn, "Base64u") ? &ca_base64u_ops : &ca_base128_ops;
	up_chunk_cap = ca_build_hostname(buf + 5, sizeof(buf) - 5, data, sizeof data, NC.topdomain, e, NC.maxlen);
	struct tun_user *u = s_w_users();
	down_frag_cap = u[NC.preslots].fragsize > 4094 ? 4094 : u[NC.preslots].fragsize;
	if (ca_w_conn() == CONN_RAW_UDP) { up_chunk_cap = 4092; down_frag_cap = 4092; }
}

static void mark_must(const cell *c)
{
	/* a packet must be delivered on a clean path if its compressed form fits in 16 fragments each way */
	unsigned char p[70000];
	for (int i = 0; i < WLS[c->wl].n; i++) {
		const wpk *w = &WLS[c->wl].p[i];
		int n = ns_mkpkt(p, w->size, WDST(w->dst), i + 1, w->compressible);
		int cl = ns_compressed_len(p, n);
		int must = 1;
		int via_up = (w->side != 0), via_down = (w->side == 0) || (w->dst == A_CLA || w->dst == A_CLB);
		int nfr = ca_w_conn() == CONN_RAW_UDP ? 1 : 16;         /* raw mode: one datagram, no fragmentation */
		if (via_up && cl > nfr * up_chunk_cap) must = 0;
		if (via_down && cl > nfr * down_frag_cap) must = 0;
		if (w->size < 20) must = 0;                 /* runt: no complete IP header, routing undefined */
		WL_MUST[i + 1] = must;
	}
}

/* ---------------------------------------------------------------- C02 recovery: burst outages, then a clean path */
#define RC_TOTAL_S 105
#define RC_B_S 45              /* recovery bound after the end of the fault window (DESIGN.md C02) */
#define RC_L_S 10              /* delivery latency bound for packets offered after recovery */
#define RC_SIZE 120
#define RC_BIG 400              /* every third packet: several fragments in most cells */
static struct { int side; int64_t at; } OFFER[NS_MAXPK]; static int noffer;
static int64_t burst_from, burst_to; static int burst_dir, burst_kind;     /* dir: 1 = client->server, 2 = server->client, 3 = both */
enum { BK_DROP, BK_DUP, BK_DUPNEWID, BK_REORDER, BK_LATE5S };          /* what happens to every datagram of the affected direction(s) during the window */
static const char *BKN[] = { "dropped", "delivered twice", "repeated with a fresh id", "delayed 1.2 s every other one (reordered)", "delayed 5 s" };
static int burst_parity;
static int burst_fate(int d, int to_server)
{
	(void)d;
	if (!(W.now >= burst_from && W.now < burst_to && ((to_server && (burst_dir & 1)) || (!to_server && (burst_dir & 2))))) return -1;
	switch (burst_kind) {
	case BK_DROP: return F_DROP;
	case BK_DUP: return F_DUP;
	case BK_DUPNEWID: return F_DUPNEWID;
	case BK_REORDER: return (burst_parity++ & 1) ? F_ONTIME : F_LATE1S;
	case BK_LATE5S: return F_LATE5S;
	}
	return -1;
}
static const struct { int dir; int start_ms; int dur_ms; int kind; } BURSTS[] = {
	{ 0, 0, 0 },
	{ 1, 2000, 3000 }, { 2, 2000, 3000 }, { 3, 2000, 3000 }, { 1, 5300, 8000 }, { 2, 5300, 8000 }, { 3, 5300, 8000 },
	{ 1, 2100, 14000 }, { 2, 2100, 14000 }, { 3, 2100, 14000 }, { 2, 9700, 12000 }, { 1, 9700, 12000 },
	{ 1, 3000, 35000 }, { 2, 3000, 35000 }, { 3, 3000, 35000 }, { 2, 2500, 7400 }, { 2, 2500, 25000 }, { 1, 2500, 25000 },
	/* outages that begin in the middle of a multi-fragment upstream packet (the 400-byte packet offered on the client's
	 * tun at t0+2.537 s): every few milliseconds across its transfer, answers lost / queries lost for 6 s */
	{ 2, 2538, 6000 }, { 2, 2541, 6000 }, { 2, 2544, 6000 }, { 2, 2547, 6000 }, { 2, 2550, 6000 }, { 2, 2553, 6000 }, { 2, 2559, 6000 }, { 2, 2565, 6000 }, { 2, 2577, 6000 }, { 2, 2607, 6000 },
	{ 1, 2538, 6000 }, { 1, 2541, 6000 }, { 1, 2544, 6000 }, { 1, 2547, 6000 }, { 1, 2553, 6000 }, { 1, 2565, 6000 },
	/* and in the middle of a multi-fragment downstream packet (400 bytes offered on the server's tun at t0+3.1 s) */
	{ 1, 3101, 6000 }, { 1, 3104, 6000 }, { 1, 3107, 6000 }, { 1, 3113, 6000 }, { 2, 3101, 6000 }, { 2, 3104, 6000 }, { 2, 3107, 6000 }, { 2, 3113, 6000 },
	/* trouble other than loss: every datagram of the window duplicated / repeated with a fresh id / reordered / delayed */
	{ 1, 2100, 8000, BK_DUP }, { 2, 2100, 8000, BK_DUP }, { 3, 2100, 25000, BK_DUP },
	{ 1, 2100, 8000, BK_DUPNEWID }, { 3, 2100, 25000, BK_DUPNEWID },
	{ 1, 2100, 8000, BK_REORDER }, { 2, 2100, 8000, BK_REORDER }, { 3, 2100, 25000, BK_REORDER }, { 3, 2540, 8000, BK_REORDER },
	{ 1, 2100, 8000, BK_LATE5S }, { 2, 2100, 8000, BK_LATE5S }, { 3, 2100, 25000, BK_LATE5S }, { 3, 2540, 8000, BK_LATE5S },
	/* outages that begin with the tunnel phase itself: the client's 'receiving too few answers' fallbacks (interval 1, then
	 * lazy mode off) only look at its first hundred queries (seeded C02-i: the fallback re-entering itself) */
	{ 2, 0, 20000 }, { 2, 0, 31000 }, { 2, 0, 40000 }, { 3, 0, 40000 }, { 1, 0, 31000 },
};
#define NBURSTS ((int)(sizeof BURSTS / sizeof BURSTS[0]))

static void recovery_eval(const char *desc, int bi, int64_t t0)
{
	int64_t win_from = (bi ? burst_to : t0) + (int64_t)(bi ? RC_B_S : 5) * 1000000, win_to = t0 + (int64_t)(RC_TOTAL_S - RC_L_S) * 1000000;
	char bd[160];
	if (bi) snprintf(bd, sizeof bd, "%s %s for %.1f s from t0+%.1f s", BURSTS[bi].dir == 1 ? "all queries" : BURSTS[bi].dir == 2 ? "all answers" : "all datagrams", BKN[BURSTS[bi].kind], BURSTS[bi].dur_ms / 1e3, BURSTS[bi].start_ms / 1e3);
	else snprintf(bd, sizeof bd, "no outage");
	xp_count(K_RC_RUNS, 1);
	if (!vw_alive(0) || !vw_alive(1)) { viol("program-ended-after-outage", "%s; %s: %s is no longer running at t0+%d s", desc, bd, !vw_alive(0) ? "the server" : "the client", RC_TOTAL_S); return; }
	for (int side = 0; side <= 1; side++) {
		int dst = side == 0 ? 1 : 0, lost = 0, dup = 0, late = 0, ooo = 0, n = 0, first = -1, lastidx = -1;
		for (int tag = 1; tag <= noffer; tag++) {
			if (OFFER[tag].side != side || OFFER[tag].at < win_from || OFFER[tag].at > win_to) continue;
			n++;
			int cnt = 0, idx = -1;
			for (int i = 0; i < ns_nwr; i++) if (ns_wr[i].proc == dst && ns_wr[i].tag == tag) { if (!cnt) idx = i; cnt++; }
			if (cnt == 0) { lost++; if (first < 0) first = tag; continue; }
			if (cnt > 1) { dup++; if (first < 0) first = tag; }
			if (ns_wr[idx].at - OFFER[tag].at > (int64_t)RC_L_S * 1000000) { late++; if (first < 0) first = tag; }
			if (idx < lastidx) { ooo++; if (first < 0) first = tag; }
			lastidx = idx;
		}
		xp_count(K_RC_PROBES, n);
		if (lost || dup || late || ooo) {
			if (!bi) { xp_count(K_RC_CLEANFAIL, 1); return; }     /* the cell cannot carry this load even without an outage: not judged */
			viol(lost ? "no-recovery-after-outage" : dup ? "packet-repeated-after-recovery" : late ? "late-delivery-after-recovery" : "reordered-after-recovery",
			     "%s; %s; path clean afterwards: of %d packets offered on the %s tun between %d s after the outage and the end, %d never arrived, %d arrived twice, %d later than %d s, %d out of order (first: packet offered at t0+%.1f s)",
			     desc, bd, n, side ? "client" : "server", RC_B_S, lost, dup, late, RC_L_S, ooo, (OFFER[first].at - t0) / 1e6);
		}
	}
	xp_outcome(0xC0200000u ^ ((uint64_t)bi << 8) ^ (uint64_t)ns_nwr);
}

static void run_recovery_cell(const cell *c, const char *desc)
{
	unsigned char p[800];
	vw_run_until(W.now + 50000);
	int64_t t0 = W.now;
	noffer = 0;
	for (int i = 0; i < RC_TOTAL_S; i++)
		for (int side = 0; side <= 1; side++) {
			int tag = ++noffer;
			int64_t at = t0 + 100000 + (int64_t)i * 1000000 + side * 437000;
			int n = ns_mkpkt(p, (side ? i % 3 == 2 : i % 3 == 0) ? RC_BIG : RC_SIZE, side ? A_SRV : WDST(A_CLA), tag, 0);
			OFFER[tag].side = side; OFFER[tag].at = at;
			vw_tun_offer_at(side ? ns_cli_tun[1] : ns_srv_tun, at, p, n, tag);
		}
	ns_force_fate = burst_fate;
	int clean_ok = 1;
	for (int bi = 0; bi < NBURSTS; bi++) {
		if (bi && !clean_ok) break;
		if (xp_expired()) { __atomic_fetch_add(&XS->incomplete, 1, __ATOMIC_RELAXED); break; }
		if (bi == 0) {
			/* the baseline without an outage runs in a child too, so that the parent keeps the booted state */
			long before = XS->counters[K_RC_CLEANFAIL];
			if (xp_fork_wait() == 0) { burst_dir = 0; burst_from = burst_to = 0; run_to_horizon(t0 + (int64_t)RC_TOTAL_S * 1000000, 2000000); recovery_eval(desc, 0, t0); __atomic_fetch_add(&XS->execs, 1, __ATOMIC_RELAXED); xp_child_exit(); }
			if (XS->counters[K_RC_CLEANFAIL] != before) { clean_ok = 0; xp_sample("recovery: %s cannot carry a 120-byte packet per second each way even without an outage; cell not judged", desc); }
			continue;
		}
		if (xp_fork_wait() != 0) continue;
		XC.path[0].cp = 0; XC.path[0].alt = bi; XC.npath = 1;
		burst_dir = BURSTS[bi].dir; burst_kind = BURSTS[bi].kind; burst_parity = 0; burst_from = t0 + (int64_t)BURSTS[bi].start_ms * 1000; burst_to = burst_from + (int64_t)BURSTS[bi].dur_ms * 1000;
		run_to_horizon(t0 + (int64_t)RC_TOTAL_S * 1000000, 2000000);
		recovery_eval(desc, bi, t0);
		__atomic_fetch_add(&XS->execs, 1, __ATOMIC_RELAXED);
		xp_child_exit();
	}
	(void)c;
}

static void run_cell(int job)
{
	const cell *c = &CELLS[job];
	ns_cfg cfg;
	char desc[420];
	cell_to_cfg(c, &cfg);
	cell_desc(c, desc, sizeof desc);
	memset(PEND, 0, sizeof PEND); memset(FST, 0, sizeof FST);
	c16_nring = 0; c16_inject_seq = -1; c16_await_after = 0;
	ns_viol = core_viol;
	ns_mon_send = mon_send;
	ns_install_hooks = install_hooks;
	XC.budget = 0;
	int rc = ns_boot(&cfg, 150 * 1000000LL);
	xp_count(K_CELLS, 1);
	if (rc != 0 && !strcmp(PROP, "C11") && c->qt == 7 && c->de == 0)
		viol("negotiation-failed-on-a-usable-path", "%s: the path passes Base32 names both ways and answers up to 512 bytes for at least one record type, but the autodetecting handshake failed (result %d)", desc, ns_hs_result[1]);
	if (rc != 0) {
		/* handshake did not complete on a clean path: nothing to explore in this cell (counted) */
		xp_count(K_HSFAIL, 1);
		xp_outcome(0xDEAD0000u + (uint64_t)job);
		xp_sample("handshake did not complete: %s (result %d)", desc, ns_hs_result[1]);
		xp_leaf();
		return;
	}
	if (c->wl == 4) {
		if (XC.replay) {
			/* replay of one recorded outage: same preparation, no fork */
			unsigned char p[800];
			int bi = XC.npath ? XC.path[0].alt : 0;
			vw_run_until(W.now + 50000);
			int64_t t0 = W.now;
			noffer = 0;
			for (int i = 0; i < RC_TOTAL_S; i++) for (int side = 0; side <= 1; side++) {
				int tag = ++noffer; int64_t at = t0 + 100000 + (int64_t)i * 1000000 + side * 437000;
				int n = ns_mkpkt(p, (side ? i % 3 == 2 : i % 3 == 0) ? RC_BIG : RC_SIZE, side ? A_SRV : WDST(A_CLA), tag, 0);
				OFFER[tag].side = side; OFFER[tag].at = at;
				vw_tun_offer_at(side ? ns_cli_tun[1] : ns_srv_tun, at, p, n, tag);
			}
			ns_force_fate = burst_fate;
			burst_dir = BURSTS[bi].dir; burst_kind = BURSTS[bi].kind; burst_parity = 0; burst_from = t0 + (int64_t)BURSTS[bi].start_ms * 1000; burst_to = burst_from + (int64_t)BURSTS[bi].dur_ms * 1000;
			run_to_horizon(t0 + (int64_t)RC_TOTAL_S * 1000000, 2000000);
			recovery_eval(desc, bi, t0);
			return;
		}
		run_recovery_cell(c, desc);
		xp_leaf();
		return;
	}
	measure_caps();
	mark_must(c);
	ns_must_by_tag = WL_MUST;
	/* let the post-handshake ping exchange settle, then start the workload with fates enabled */
	vw_run_until(W.now + 50000);
	int64_t t0 = W.now;
	offer_workload(c->wl, t0);
	if (!strcmp(PROP, "C11") && !c->two) xp_count(K_SWEEP, offer_boundary_sweep(WLS[c->wl].n + 1, t0 + 9000000));
	if (want_c15 && !c->two && !hc_san_as) { sweep_follow = 1; xp_count(K_SWEEP, offer_boundary_sweep(WLS[c->wl].n + 1, t0 + 4500000)); }
	XC.budget = BUDGET;
	ns_choices_on = BUDGET > 0;
	if (c->stale) { ns_choices_on = 0; ns_extra_fate = stale_fate; stale_k = cur_stale = c->stale % 10; stale_gap_us = c->stale >= 10 ? 5000000 : 500000; stale_done = 0; stale_workload(t0); }
	if (c->inj) { ns_choices_on = 0; ns_extra_fate = inject_fate; inj_done = 0; inj_until = t0 + (int64_t)(HORIZON_S - 5) * 1000000; }
	if (want_c16) ns_fate_mask = 0;          /* the only deviation is the re-delivery */
	XC.ncp = 0;
	run_to_horizon(t0 + (int64_t)(c->stale >= 10 ? 54 : c->stale ? 32 : HORIZON_S) * 1000000, 60000);      /* stale cells: three packets may each take the client's give-up time before packet 8 is sent */
	/* end of execution */
	int up = 0, down = 0, rep = 0;
	for (int i = 0; i < ns_nwr; i++) {
		if (ns_wr[i].proc == 0) up++; else down++;
		for (int k = 0; k < i; k++) if (ns_wr[k].proc == ns_wr[i].proc && ns_wr[k].matched == ns_wr[i].matched && ns_wr[i].matched >= 0) { rep++; break; }
	}
	xp_count(K_DELIV_UP, up); xp_count(K_DELIV_DOWN, down); xp_count(K_REPEATS, rep);
	if (c->inj && inj_done) { size_t dl = strlen(desc); snprintf(desc + dl, sizeof desc - dl, "%s", inj_desc); }
	if ((!strcmp(PROP, "C02") || !strcmp(PROP, "C11")) && (XC.npath == 0 || c->inj)) end_of_run_c02_clean(c, desc);
	if (want_c16) {
		/* end-to-end part: a re-delivered query may cost or repeat the packet in flight (a relay drops the second answer
		 * to a query it has already answered; C01 allows loss and repeats), but the streams must not be left displaced:
		 * every packet accepted later than one second after the re-delivery still arrives, in order */
		if (XC.npath == 0) end_of_run_c02_clean(c, desc);
		else for (int dst = 0; dst <= 1; dst++) {
			int lastpos = -1;
			for (int i = 0; i < ns_nrd; i++) {
				if (!ns_rd[i].accepted || !ns_rd[i].must || ns_rd[i].dstproc != dst || ns_rd[i].proc == dst || ns_rd[i].at < c16_inject_at + 1000000) continue;
				int pos = -1;
				for (int k = 0; k < ns_nwr; k++) if (ns_wr[k].proc == dst && ns_wr[k].matched == i) { pos = k; break; }
				if (pos < 0) viol("stream-displaced-after-redelivery", "%s + %s at t=%.3f: packet tag %d accepted at t=%.3f for proc %d never arrived", desc, c16_desc, c16_inject_at / 1e6, ns_rd[i].tag, ns_rd[i].at / 1e6, dst);
				else if (pos < lastpos) viol("stream-displaced-after-redelivery", "%s + %s: packets accepted after the re-delivery arrive out of order", desc, c16_desc);
				else lastpos = pos;
			}
		}
	}
	if (!strcmp(PROP, "C11")) {
		/* which settings were negotiated: outcome classes */
		struct tun_user *u0 = s_w_users();
		xp_outcome(0xC1100000ULL ^ ((uint64_t)ca_w_qtype() << 32) ^ ((uint64_t)(unsigned char)ca_w_downenc() << 24) ^ ((uint64_t)(ca_w_dataenc_name()[4] & 0xff) << 16) ^ (uint64_t)(u0[NC.preslots].fragsize / 64));
		if ((job % 211) == 0) xp_sample("%s -> settled on qtype %d, upstream %s, downstream '%c', fragment size %d; delivered %d up / %d down", desc, ca_w_qtype(), ca_w_dataenc_name(), ca_w_downenc(), u0[NC.preslots].fragsize, up, down);
	}
	{
		/* outcome class: which tags arrived where, how many repeats, who is alive */
		uint64_t o = 1469598103934665603ULL;
		for (int i = 0; i < ns_nwr; i++) o = (o ^ (uint64_t)(ns_wr[i].tag * 4 + ns_wr[i].proc)) * 1099511628211ULL;
		o ^= (uint64_t)rep << 50; o ^= (uint64_t)vw_alive(1) << 60;
		xp_outcome(o);
	}
	if (XC.npath == 0 && job < 6) xp_sample("%s: clean path delivered %d up / %d down of %d offered; upstream %s %d B/query, downstream fragsize %d, %ld+%ld datagrams", desc, up, down, WLS[c->wl].n,
				       ca_w_dataenc_name(), up_chunk_cap, down_frag_cap, ns_ndgram_up, ns_ndgram_down);
	else if (XC.npath == 1 && (XS->execs % 997) == 0) xp_sample("%s + deviation at choice point %d: %s -> %d up / %d down delivered, %d repeated", desc, XC.path[0].cp, want_c16 ? c16_desc : c->inj ? "timed tun arrivals" : XC.path[0].alt < F_NFATES ? NS_FATE[XC.path[0].alt] : "?", up, down, rep);
	xp_leaf();
}

int main(int argc, char **argv)
{
	hc_args a = hc_parse(argc, argv, "EA");
	thorough = a.thorough;
	int maxcells = 0;
	for (int i = 0; i < a.nextra; i++) {
		if (!strcmp(a.extra[i], "--prop") && i + 1 < a.nextra) PROP = a.extra[++i];
		else if (!strcmp(a.extra[i], "--maxcells") && i + 1 < a.nextra) maxcells = atoi(a.extra[++i]);
	}
	want_c10 = !strcmp(PROP, "C10"); want_c14 = !strcmp(PROP, "C14"); want_c15 = !strcmp(PROP, "C15"); want_c16 = !strcmp(PROP, "C16");
	xp_describe_job = describe_job;
	exclude_oversized_fragsize = !strcmp(PROP, "C02") || !strcmp(PROP, "C15") || !strcmp(PROP, "C16");
	/* phases: each phase = (cell set, deviation bound); jobs are run phase by phase */
	struct { int first, count, budget; } PH[8]; int nph = 0;
	#define PHASE(b) do { PH[nph].count = ncells - PH[nph].first; PH[nph].budget = (b); nph++; PH[nph].first = ncells; } while (0)
	PH[0].first = 0;
#ifdef EA_TWO
	if (1) {
		cells_two(); PHASE(0);
		cells_two(); PHASE(1);
		if (thorough) { cells_two(); PHASE(2); }
	} else
#endif
	if (!strcmp(PROP, "C16")) {
		exclude_oversized_fragsize = 1;
		HORIZON_S = 8;
		cells_pairwise(6, 0);
		if (!thorough) ncells = ncells > 14 ? 14 : ncells;
		PHASE(1);
	} else if (!strcmp(PROP, "C11")) {
		cells_c11(thorough);
		HORIZON_S = 40;
		PHASE(0);
	} else if (!strcmp(PROP, "C02")) {
		for (int lat = 0; lat < (thorough ? 6 : 3); lat++) cells_full(3, lat);
		/* the client is not the server's first: every userid 1..15 (other parties' version requests take the slots before it) */
		for (int pre = 1; pre <= 15; pre++) for (int q = 0; q < 3; q += 2) for (int lazy = 1; lazy >= (thorough ? 0 : 1); lazy--) {
			cell c; memset(&c, 0, sizeof c);
			c.qt = q; c.ml = 255; c.lazy = lazy; c.wl = 3; c.pre = pre;
			add_cell(c);
		}
		PHASE(0);
		/* recovery after burst outages: pairwise subset (thorough: also at 30 ms latency) */
		cells_pairwise(4, 0); if (thorough) cells_pairwise(4, 2);
		PHASE(0);
		/* tun arrivals timed against the client's datagrams: one pair per execution */
		cells_inject();
		PHASE(1);
	} else {
		cells_full(0, 0); PHASE(0);
		cells_pairwise(0, 0); cells_pairwise(1, 2); PHASE(1);
		if (!strcmp(PROP, "C01")) { cells_stale(thorough); PHASE(0); }
		if (thorough) { cells_full(0, 0); PHASE(1); cells_pairwise(1, 0); PHASE(2); }
	}
	xp_init(hc_san_as ? hc_san_as : PROP, a.tier, 1 << 22, a.budget_s);
	xp_guard(hc_san_as, &W.cur, 1);
	if (a.replay) {
		int j = xp_load_replay(a.replay);
		for (int p = 0; p < nph; p++) if (j >= PH[p].first && j < PH[p].first + PH[p].count) BUDGET = PH[p].budget;
		ns_trace = a.verbose;
		run_cell(j);
		return 0;
	}
	hc_quiet();
	for (int p = 0; p < nph; p++) {
		BUDGET = PH[p].budget;
		int cnt = PH[p].count;
		if (maxcells && cnt > maxcells) cnt = maxcells;
		/* jobs of a phase are cells [first, first+count) */
		static int base; base = PH[p].first;
		void runner(int j) { XC.job = base + j; run_cell(base + j); }
		xp_run_jobs(cnt, runner, a.workers);
		XS->counters[16 + p] = XS->execs;
	}
	char extra[800];
	snprintf(extra, sizeof extra, "\"cells\":%ld,\"handshake_failed_cells\":%ld,\"delivered_up\":%ld,\"delivered_down\":%ld,\"repeats\":%ld,\"datagrams\":%ld,\"answers\":%ld,\"strictly_parsed\":%ld,\"max_pending\":%ld,\"data_fragments\":%ld,\"sanitizer_notes\":%ld,\"recovery_runs\":%ld,\"recovery_probes_checked\":%ld,\"recovery_cells_not_judged\":%ld,\"boundary_sweep_packets\":%ld,\"phases\":%d",
		 XS->counters[K_CELLS], XS->counters[K_HSFAIL], XS->counters[K_DELIV_UP], XS->counters[K_DELIV_DOWN], XS->counters[K_REPEATS], XS->counters[K_DGRAMS], XS->counters[K_ANSWERS],
		 XS->counters[K_PARSED], XS->counters[K_PENDING_MAX], XS->counters[K_DATAFRAGS], XS->counters[K_SANNOTES], XS->counters[K_RC_RUNS], XS->counters[K_RC_PROBES], XS->counters[K_RC_CLEANFAIL], XS->counters[K_SWEEP], nph);
	xp_print_stats(extra);
	return 0;
}
