/* C13: peer-supplied text never reaches a shell; only validated numbers do.
 * The real client runs its real handshake_login() as a coroutine; for every login reply of a
 * finite field-alphabet product, under every downstream presentation the client accepts at
 * that step, the reply is built by the server image's real write_dns(), handed to the client,
 * and every string passed to system() (by the real tun_setip()/tun_setmtu()) is checked
 * against a strict grammar.  The state "client waits for the login reply" is snapshotted
 * once per presentation and restored after each case.                 DESIGN.md 2, C13 */
#include <ctype.h>
#include <setjmp.h>
#include "harness_common.h"
#include "vw.h"
#include "explore.h"
#include "images.h"
#include "refdns.h"

IMG_SERVER(s)
IMG_CLIENT(ca)

#define CLI_TUN_FD 20
#define CLI_DNS_FD 21
#define SRV_FD 11
enum { K_CASES, K_SYSTEM, K_IFCONFIG, K_MTU, K_EXITS, K_RETRIES, K_ACCEPTED, K_SAN = 20 };

static const char *DOM = "t.example.com";
static int thorough;

/* presentations: query type + downstream codec letter used by the (hostile) server */
static const struct { const char *qtype; int qt; char enc; const char *name; } PRES[] = {
	{ "NULL", 10, 'T', "NULL/raw" }, { "PRIVATE", 65399, 'T', "PRIVATE/raw" },
	{ "TXT", 16, 'T', "TXT/t" }, { "TXT", 16, 'S', "TXT/s" }, { "TXT", 16, 'U', "TXT/u" }, { "TXT", 16, 'V', "TXT/v" }, { "TXT", 16, 'R', "TXT/r" },
	{ "CNAME", 5, 'T', "CNAME/h" }, { "CNAME", 5, 'S', "CNAME/i" }, { "CNAME", 5, 'U', "CNAME/j" }, { "CNAME", 5, 'V', "CNAME/k" },
	{ "MX", 15, 'T', "MX/h" }, { "MX", 15, 'V', "MX/k" }, { "SRV", 33, 'S', "SRV/i" }, { "A", 1, 'T', "A/h" }, { "A", 1, 'U', "A/j" },
};
#define NPRES ((int)(sizeof PRES / sizeof PRES[0]))

/* field alphabets */
/* client-address field: dotted quads of minimal, usual and maximal length x suffixes, plus odd forms */
static const char *QUADS[] = { "1.2.3.4", "10.0.0.2", "192.168.255.254" };
static const char *SUFFIX[] = { "", " ;id", "\t;id", "\n;id", "\v;id", "\f;id", "\r;id", " |x", " `id`", " $(id)", " &&x", " >f", " x", " ",
	";id", "|x", "`id`", "$(id)", "&", ">f", "'", "\"", "\\", ".", "\x80", "0", " 1.1.1.1", "\n/sbin/halt" };
static const char *ODD[] = { "0.0.0.0", "255.255.255.255", " 10.0.0.2", "\t10.0.0.2",
	"1", "1.2", "1.2.3", "0x7f.1", "0x7f.0.0.1", "010.1.1.1", "256.1.1.1", "1.2.3.4.5", "10..0.2", "+1.2.3.4", "1.2.3.-4",
	"a", ";id", "$(reboot)", "localhost",
	"aaaaaaaaaaaaaaaaaaaaaaaaaaaaaaaaaaaaaaaaaaaaaaaaaaaaaaaaaaaaaaaa",                       /* 64 chars */
	"1.1.1.1 aaaaaaaaaaaaaaaaaaaaaaaaaaaaaaaaaaaaaaaaaaaaaaaaaaaaaaaaaaaaaaaaaaaaaaaaaaaaaaaa", /* > 64 chars */
	"\xff\xfe", "" };
static const char *FC[200]; static int nFC;
static char fcbuf[200][120];
static void mk_fc(void)
{
	for (unsigned q = 0; q < sizeof QUADS / sizeof QUADS[0]; q++) for (unsigned x = 0; x < sizeof SUFFIX / sizeof SUFFIX[0]; x++) { snprintf(fcbuf[nFC], sizeof fcbuf[0], "%s%s", QUADS[q], SUFFIX[x]); FC[nFC] = fcbuf[nFC]; nFC++; }
	for (unsigned o = 0; o < sizeof ODD / sizeof ODD[0]; o++) FC[nFC++] = ODD[o];
}
static const char *FS[] = { "10.0.0.1", "10.0.0.1 ;id", "10.0.0.1;id", "`id`", "a b", "", "x",
	"bbbbbbbbbbbbbbbbbbbbbbbbbbbbbbbbbbbbbbbbbbbbbbbbbbbbbbbbbbbbbbbb" };
static const char *FM[] = { "1130", "200", "201", "1500", "1501", "0", "-1", "2147483648", "1130;id", "1130 x", "+1130", " 1130" };
static const char *FN[] = { "27", "0", "-1", "8", "30", "32", "33", "2147483648", "27;id" };
#define N(a) ((int)(sizeof a / sizeof a[0]))
static const char *EXTRA[] = { "LNAK", "BADIP", "", "10.0.0.1-10.0.0.2-1130", "10.0.0.1-10.0.0.2-1130-27-;id", "10.0.0.1-10.0.0.2-1130-27;id", "---", "-10.0.0.2-1130-27",
	"10.0.0.1-10.0.0.2 ;id-1130-27\n", "x-10.0.0.2\n;reboot-1130-27" };

/* ---------------------------------------------------------------- capture */
static unsigned char lastq[700]; static int lastqlen;      /* the client's latest query */
static unsigned char reply[70000]; static int replylen;
static char syscmds[8][600]; static int nsys;
static int cli_sock, srv_sock;
static struct sockaddr_storage srv_addr, cli_addr; static socklen_t alen;
static int login_result = -99;

static void on_send(int d)
{
	vw_dgram *g = &W.dg[d];
	if (g->from_proc == 0) { replylen = g->len > (int)sizeof reply ? (int)sizeof reply : g->len; memcpy(reply, g->data, replylen); }
	else { lastqlen = g->len > (int)sizeof lastq ? (int)sizeof lastq : g->len; memcpy(lastq, g->data, lastqlen); }
	vw_dgram_free(d);
}
static void on_system(int proc, const char *cmd) { (void)proc; if (nsys < 8) snprintf(syscmds[nsys++], sizeof syscmds[0], "%s", cmd); }
static void on_san(const char *sig) { if (hc_san_report(sig, 1, "the login-reply enumeration")) return; xp_count(K_SAN, 1); }

static void viol(const char *what, const char *fmt, ...)
{
	if (hc_san_as) return;
	char detail[380], sig[120];
	va_list ap; va_start(ap, fmt); vsnprintf(detail, sizeof detail, fmt, ap); va_end(ap);
	snprintf(sig, sizeof sig, "C13:%s", what);
	xp_violation(sig, "%s", detail);
}

/* ---------------------------------------------------------------- the grammar of allowed commands */
static int is_dq(const char *s, int n)
{
	int parts = 0, i = 0;
	while (i < n) {
		int v = 0, d = 0;
		while (i < n && isdigit((unsigned char)s[i]) && d < 3) { v = v * 10 + (s[i] - '0'); i++; d++; }
		if (d == 0 || v > 255) return 0;
		parts++;
		if (i == n) break;
		if (s[i] != '.' || parts == 4) return 0;
		i++;
		if (i == n) return 0;
	}
	return parts == 4;
}

static int next_tok(const char **p, const char **tok)
{
	/* tokens are separated by exactly one space */
	const char *s = *p;
	*tok = s;
	while (*s && *s != ' ') s++;
	int n = (int)(s - *tok);
	if (*s == ' ') s++;
	*p = s;
	return n;
}

/* 1 = ifconfig ip command, 2 = mtu command, 0 = not allowed */
static int allowed_command(const char *cmd)
{
	const char *pre = "PATH=/sbin:/bin ifconfig dns0 ";
	if (strncmp(cmd, pre, strlen(pre))) return 0;
	const char *p = cmd + strlen(pre), *t; int n;
	for (const char *c = cmd; *c; c++) if ((unsigned char)*c < 0x20 || (unsigned char)*c >= 0x7f) return 0;
	n = next_tok(&p, &t);
	if (n == 3 && !strncmp(t, "mtu", 3)) {
		n = next_tok(&p, &t);
		if (n < 3 || n > 4 || *p) return 0;
		int v = 0;
		for (int i = 0; i < n; i++) { if (!isdigit((unsigned char)t[i])) return 0; v = v * 10 + t[i] - '0'; }
		if (t[0] == '0') return 0;
		return (v > 200 && v <= 1500) ? 2 : 0;
	}
	if (!is_dq(t, n)) return 0;
	n = next_tok(&p, &t); if (!is_dq(t, n)) return 0;
	n = next_tok(&p, &t); if (n != 7 || strncmp(t, "netmask", 7)) return 0;
	n = next_tok(&p, &t); if (!is_dq(t, n) || *p) return 0;
	return 1;
}

/* ---------------------------------------------------------------- processes */
static uint32_t SEED = 0x1a2b3c4d;
static void client_main(void *arg)
{
	int pres = (int)(intptr_t)arg;
	struct w_client_cfg c;
	memset(&c, 0, sizeof c);
	memcpy(&c.nameserv, &srv_addr, sizeof srv_addr); c.nameserv_len = alen;
	c.topdomain = DOM; c.password = "sesame"; c.qtype = PRES[pres].qtype; c.downenc = "";
	c.selecttimeout = 4; c.lazymode = 1; c.hostname_maxlen = 255; c.srand_seed = 4242;
	ca_w_tun_set_ifname("dns0");
	ca_w_setup(&c);
	ca_w_set_userid(3);
	login_result = ca_w_handshake_login(CLI_DNS_FD, (int)SEED);
}

static void escape(const char *s, char *out, size_t n)
{
	size_t o = 0;
	for (; *s && o + 5 < n; s++) { unsigned char ch = *s; if (ch < 0x20 || ch >= 0x7f || ch == '\\') o += snprintf(out + o, n - o, "\\x%02x", ch); else out[o++] = ch; }
	out[o] = 0;
}

static vw_snap *SNAP;
static unsigned char snapq[700]; static int snapqlen;     /* the login query the snapshotted client is waiting on */
static long ncases;

static void one_case(int pres, const char *payload, int plen)
{
	/* the server image's real reply writer, for the client's real login query */
	static struct query q; static rd_msg m; char err[128];
	jmp_buf jb;
	memcpy(lastq, snapq, snapqlen); lastqlen = snapqlen;
	if (rd_parse(lastq, lastqlen, &m, err)) vw_fatal("client login query unparsable: %s", err);
	memset(&q, 0, sizeof q);
	rd_name_to_dotted(m.qname, m.qnamelen, q.name, sizeof q.name);
	q.type = m.qtype; q.id = m.id;
	memcpy(&q.from, &cli_addr, alen); q.fromlen = alen;
	replylen = -1; nsys = 0; login_result = -99;
	if (setjmp(jb) == 0) { vw_direct_begin(0, &jb); s_w_write_dns(SRV_FD, &q, payload, plen, PRES[pres].enc); vw_direct_end(); }
	else { vw_direct_end(); vw_fatal("write_dns exited"); }
	xp_count(K_CASES, 1); ncases++;
	if (replylen > 0) {
		int d = vw_dgram_new(&srv_addr, alen, &cli_addr, alen, reply, replylen, -1);
		vw_deliver_now(d, cli_sock);
		vw_run_quiescent(0);
	}
	int cls = 0;
	for (int i = 0; i < nsys; i++) {
		xp_count(K_SYSTEM, 1);
		int a = allowed_command(syscmds[i]);
		if (a == 1) xp_count(K_IFCONFIG, 1); else if (a == 2) xp_count(K_MTU, 1);
		cls = cls * 3 + a + 1;
		if (!a) {
			char ep[300], ec[700];
			char tmp[300]; int k = plen > 250 ? 250 : plen; memcpy(tmp, payload, k); tmp[k] = 0;
			escape(tmp, ep, sizeof ep); escape(syscmds[i], ec, sizeof ec);
			/* signature: which shape of text got through (whitespace-separated tail / other) */
			const char *shape = strpbrk(syscmds[i] + 30, "\t\n\v\f\r") ? "control-character-in-command" : "peer-text-in-command";
			char what[80]; snprintf(what, sizeof what, "%s", shape);
			viol(what, "%s login reply \"%s\": client ran system(\"%s\")", PRES[pres].name, ep, ec);
		}
	}
	if (login_result == 0) { xp_count(K_ACCEPTED, 1); cls += 200; }
	else if (!vw_alive(1)) { xp_count(K_EXITS, 1); cls += 100; }
	else if (W.proc[1].state == VW_P_SELECT) { xp_count(K_RETRIES, 1); cls += 300; }
	if (getenv("VERIF_VERBOSE")) { char ep[300]; char tmp[300]; int k = plen > 250 ? 250 : plen; memcpy(tmp, payload, k); tmp[k] = 0; escape(tmp, ep, sizeof ep); dprintf(2, "CASE %s [%s] replylen %d nsys %d cls %d state %d\n", PRES[pres].name, ep, replylen, nsys, cls, W.proc[1].state); }
	xp_outcome(((uint64_t)pres << 32) ^ (uint64_t)cls);
	vw_restore(SNAP);
}

static void job(int pres)
{
	vw_init();
	W.verbose = getenv("VERIF_VERBOSE") != NULL;
	IMG_REGISTER(s); IMG_REGISTER(ca);
	W.hooks.on_send = on_send; W.hooks.on_system = on_system; W.hooks.on_sanitizer = on_san;
	vw_mkaddr(&srv_addr, &alen, "192.0.2.1", 53);
	vw_mkaddr(&cli_addr, &alen, "198.51.100.7", 40000);
	srv_sock = vw_sock_open(0, SRV_FD, "192.0.2.1", 53);
	cli_sock = vw_sock_open(1, CLI_DNS_FD, "198.51.100.7", 40000);
	vw_tun_open(1, CLI_TUN_FD);
	vw_spawn(1, client_main, (void *)(intptr_t)pres);
	vw_run_quiescent(0);
	if (W.proc[1].state != VW_P_SELECT || lastqlen <= 0) vw_fatal("client did not send its login query");
	SNAP = vw_snapshot();
	memcpy(snapq, lastq, lastqlen); snapqlen = lastqlen;
	char buf[700];
	/* full product of the field alphabets */
	int stepC = 1, stepS = 1;
	if (!thorough && pres > 1) stepS = N(FS);        /* quick: full product only for the raw presentations, field-wise elsewhere */
	for (int c = 0; c < nFC; c += stepC) for (int s_ = 0; s_ < N(FS); s_ += stepS)
		for (int m_ = 0; m_ < N(FM); m_++) for (int n_ = 0; n_ < N(FN); n_++) {
			if (!thorough && pres > 1 && m_ > 0 && n_ > 0) continue;
			int l = snprintf(buf, sizeof buf, "%s-%s-%s-%s", FS[s_], FC[c], FM[m_], FN[n_]);
			one_case(pres, buf, l);
		}
	for (int e = 0; e < N(EXTRA); e++) one_case(pres, EXTRA[e], (int)strlen(EXTRA[e]));
	/* trailing bytes after the last field, and a NUL inside */
	{ const char t[] = "10.0.0.1-10.0.0.2-1130-27\0;id"; one_case(pres, t, sizeof t - 1); }
	xp_sample("%s: %ld login replies (fields: %d client-address x %d server-address x %d mtu x %d netmask values%s + %d structural)", PRES[pres].name, ncases, nFC, N(FS), N(FM), N(FN),
		  (!thorough && pres > 1) ? ", field-wise" : ", full product", N(EXTRA) + 1);
	__atomic_fetch_add(&XS->execs, ncases, __ATOMIC_RELAXED);
	__atomic_fetch_add(&XS->states, ncases, __ATOMIC_RELAXED);
	__atomic_fetch_add(&XS->transitions, ncases, __ATOMIC_RELAXED);
}

int main(int argc, char **argv)
{
	hc_args a = hc_parse(argc, argv, "C13");
	thorough = a.thorough;
	mk_fc();
	xp_init(hc_san_as ? hc_san_as : "C13", a.tier, 1024, a.budget_s);
	xp_guard(hc_san_as, &W.cur, 1);
	/* self-test of the grammar */
	if (allowed_command("PATH=/sbin:/bin ifconfig dns0 10.0.0.2 10.0.0.2 netmask 255.255.255.224") != 1 || allowed_command("PATH=/sbin:/bin ifconfig dns0 mtu 1130") != 2 ||
	    allowed_command("PATH=/sbin:/bin ifconfig dns0 10.0.0.2 ;id 10.0.0.2 ;id netmask 255.255.255.224") || allowed_command("PATH=/sbin:/bin ifconfig dns0 mtu 200") ||
	    allowed_command("PATH=/sbin:/bin ifconfig dns0 010.1.1.1 10.0.0.2 netmask 255.0.0.0") != 1 || allowed_command("PATH=/sbin:/bin ifconfig dns0 1.2 1.2 netmask 255.0.0.0"))
		{ dprintf(1, "HARNESS-ERROR command grammar self-test failed\n"); return 2; }
	if (a.replay) { xp_load_replay(a.replay); job(XC.job); return 0; }
	hc_quiet();
	xp_run_jobs(NPRES, job, a.workers);
	char extra[400];
	snprintf(extra, sizeof extra, "\"cases\":%ld,\"system_calls\":%ld,\"ifconfig_ip_ok\":%ld,\"ifconfig_mtu_ok\":%ld,\"client_exits\":%ld,\"client_retries\":%ld,\"logins_accepted\":%ld,\"presentations\":%d,\"sanitizer_notes_for_C06\":%ld",
		 XS->counters[K_CASES], XS->counters[K_SYSTEM], XS->counters[K_IFCONFIG], XS->counters[K_MTU], XS->counters[K_EXITS], XS->counters[K_RETRIES], XS->counters[K_ACCEPTED], NPRES, XS->counters[K_SAN]);
	xp_print_stats(extra);
	return 0;
}
