/* C10, auxiliary part: the server's answers to queries nobody in a tunnel session sends -
 * NS queries under the tunnel domain, A queries for ns./www., foreign names under the domain
 * with every label length 1..63 and maximal total length, under plain, upper-case and wildcard
 * tunnel domains.  Every answer is parsed by the strict RFC 1035 parser (ref/refdns.c) and must
 * echo id, question name (byte-exact) and type; NS answers must name ns.<domain as asked>,
 * A answers for ns./www. must carry a 4-byte address.  Forwarded copies (-b) of names outside
 * the domain are parsed too.                                         DESIGN.md 2, C10 */
#include <ctype.h>
#include "harness_common.h"
#include "vw.h"
#include "explore.h"
#include "images.h"
#include "refdns.h"
#include "adv.h"
#include "tmsg.h"

IMG_SERVER(s)

enum { K_QUERIES, K_ANSWERS, K_NS, K_A, K_FWD, K_SILENT, K_SAN = 20 };
static struct sockaddr_storage X_ADDR, LOCALDNS; static socklen_t ALEN;
static const char *DOMS[] = { "t.example.com", "T.Example.COM", "*.w.example.com", "a.b",
	"abcdefghijklmnopqrstuvwxyzabcdefghijklmnopqrstuvwxyzabcdefghijk.0123456789012345678901234567890123456789012345678901234567890.xy" };
#define NDOM 5
static const char *DOMAIN;
static int thorough;

static void viol(const char *what, const char *fmt, ...)
{
	char detail[380], sig[120];
	va_list ap; va_start(ap, fmt); vsnprintf(detail, sizeof detail, fmt, ap); va_end(ap);
	snprintf(sig, sizeof sig, "C10:%s", what);
	xp_violation(sig, "%s", detail);
}
static void on_san(const char *sig) { (void)sig; xp_count(K_SAN, 1); }

/* offset in `name` (dotted) where the tunnel domain part starts, -1 if the name is not under it (reference, from the property text) */
static int domain_offset(const char *name, int nl)
{
	const char *d = DOMAIN; int dl = (int)strlen(d);
	if (d[0] == '*' && d[1] == '.') {
		const char *rest = d + 1; int rl = dl - 1;         /* ".w.example.com" */
		if (nl < rl + 1 || strncasecmp(name + nl - rl, rest, rl)) return -1;
		int e = nl - rl, b = e;
		while (b > 0 && name[b - 1] != '.') b--;
		if (e - b < 1) return -1;
		for (int i = b; i < e; i++) if (name[i] == '*') return -1;
		return b;
	}
	if (nl < dl || strncasecmp(name + nl - dl, d, dl)) return -1;
	if (nl == dl) return 0;
	if (name[nl - dl - 1] != '.') return -1;
	return nl - dl;
}

static int NS_IP_SET;
/* a query whose first label has one of the reserved length bytes 64..191 (0x40..0xbf: neither a length nor a compression pointer).
 * No answer is demanded; whatever the server emits - an answer, a forwarded copy - must still be a well-formed message
 * (a sub-agent's remark on the unchanged code: readname() takes such a byte for a length, putname() then refuses the label
 * and dns_encode() ignores that) */
static int RAWLABEL;
static void ask(const char *name, int nl, int qtype, int edns)
{
	uint8_t wire[400], pkt[800];
	static rd_msg m, q;
	char err[128], shown[80];
	int wl;
	if (RAWLABEL) {
		/* dotted name to wire format without the 63-byte limit on a label */
		wl = 0;
		for (int i = 0; i < nl; ) {
			int j = i; while (j < nl && name[j] != '.') j++;
			if (j == i || j - i > 191 || wl + 1 + (j - i) > 380) return;
			wire[wl++] = (uint8_t)(j - i); memcpy(wire + wl, name + i, j - i); wl += j - i;
			i = j + 1;
		}
		wire[wl++] = 0;
	} else {
	wl = rd_dotted_to_wire(name, nl, wire, sizeof wire);
	if (wl < 0 || wl > 255) return;
	}
	static int idseq = 0x100;
	int id = (idseq = (idseq * 7 + 13) & 0xffff) ? idseq : 1;
	int plen = rd_mkquery(pkt, sizeof pkt, id, wire, wl, qtype, edns);
	if (rd_parse(pkt, plen, &q, err) && !RAWLABEL) vw_fatal("harness built a malformed query: %s", err);
	snprintf(shown, sizeof shown, "%.60s%s", name, nl > 60 ? ".." : "");
	for (char *c = shown; *c; c++) if ((unsigned char)*c < 0x20 || (unsigned char)*c >= 0x7f) *c = '?';
	adv_clear();
	adv_send(&X_ADDR, ALEN, pkt, plen);
	if (vw_alive(0) && W.proc[0].deadline != VW_NEVER && W.proc[0].deadline - W.now <= 20000) { vw_run_until(W.proc[0].deadline); vw_run_quiescent(0); }
	xp_count(K_QUERIES, 1);
	if (!vw_alive(0)) { viol("server-exited", "server ended after a type %d query for %s", qtype, shown); return; }
	int doff = domain_offset(name, nl);
	int answers = 0;
	for (int i = 0; i < adv_nout; i++) {
		adv_out *o = &adv_outs[i];
		if (o->kind == 3) continue;
		if (rd_parse(o->data, o->len, &m, err)) {
			viol(o->kind == 2 ? "forwarded-query-malformed" : "malformed-message", "domain %s, type %d query for %s (first label %d bytes, %d bytes on the wire): %s is malformed: %s", DOMAIN, qtype, shown, wire[0], wl, o->kind == 2 ? "the forwarded copy" : "the answer", err);
			continue;
		}
		if (RAWLABEL) { if (o->kind != 2) answers++; continue; }   /* only well-formedness is demanded of a reaction to a malformed query */
		if (o->kind == 2) { xp_count(K_FWD, 1); if (doff >= 0) viol("tunnel-name-forwarded", "domain %s: %s is under the tunnel domain but was forwarded", DOMAIN, shown); continue; }
		answers++;
		xp_count(K_ANSWERS, 1);
		if (!m.qr) { viol("server-sent-query", "server sent a query to the requester for %s", shown); continue; }
		if (m.id != id || m.qtype != qtype || m.qnamelen != q.qnamelen || memcmp(m.qname, q.qname, m.qnamelen))
			viol("answer-does-not-echo-question", "domain %s, type %d query id %d for %s: answer has id %d type %d and %s question name", DOMAIN, qtype, id, shown, m.id, m.qtype, (m.qnamelen != q.qnamelen || memcmp(m.qname, q.qname, m.qnamelen)) ? "a different" : "the same");
		if (qtype == 2 && doff >= 0) {
			/* NS: answered with ns.<domain as it appears in the question> */
			uint8_t want[300]; int wn = 0;
			want[wn++] = 2; want[wn++] = 'n'; want[wn++] = 's';
			int k = rd_dotted_to_wire(name + doff, nl - doff, want + wn, sizeof want - wn);
			wn += k;
			int ok = 0;
			for (int r = 0; r < m.nrr; r++) if (m.rr[r].section == 1 && m.rr[r].type == 2 && m.rr[r].targetlen == wn && !memcmp(m.rr[r].target, want, wn)) ok = 1;
			xp_count(K_NS, 1);
			if (!ok) viol("ns-answer-not-ns-domain", "domain %s: NS query for %s is not answered with an NS record for ns.<domain>", DOMAIN, shown);
			for (int r = 0; r < m.nrr; r++) if (m.rr[r].section == 3 && m.rr[r].type == 1 && m.rr[r].rdlen != 4) viol("a-record-not-4-bytes", "additional A record with %d bytes", m.rr[r].rdlen);
		}
		if (qtype == 1 && doff >= 0 && ((doff == 3 && !strncasecmp(name, "ns.", 3)) || (doff == 4 && !strncasecmp(name, "www.", 4)))) {
			int ok = 0;
			for (int r = 0; r < m.nrr; r++) if (m.rr[r].section == 1 && m.rr[r].type == 1 && m.rr[r].rdlen == 4) ok = 1;
			xp_count(K_A, 1);
			if (!ok) viol("ns-www-not-answered-with-address", "domain %s: A query for %s is not answered with an address record", DOMAIN, shown);
		}
	}
	if (RAWLABEL) { xp_outcome(0x7000000 ^ ((uint64_t)qtype << 40) ^ ((uint64_t)answers << 32) ^ (uint64_t)(adv_nout ? adv_outs[0].len : 0)); return; }
	if (answers > 1) viol("more-than-one-answer", "domain %s, type %d query for %s got %d answers", DOMAIN, qtype, shown, answers);
	if (answers == 0) xp_count(K_SILENT, 1);
	/* (an A query for ns.<domain> that arrives over IPv6 while no external address is configured cannot be answered: the
	 * server knows no IPv4 address of its own and deliberately stays silent, see handle_a_request(); not demanded) */
	int no_v4_known = X_ADDR.ss_family == AF_INET6 && !NS_IP_SET && qtype == 1 && doff == 3;
	if ((qtype == 2 || (qtype == 1 && ((doff == 3 && !strncasecmp(name, "ns.", 3)) || (doff == 4 && !strncasecmp(name, "www.", 4))))) && doff >= 0 && answers == 0 && !no_v4_known)
		viol(qtype == 2 ? "ns-query-not-answered" : "ns-www-not-answered-with-address", "domain %s: type %d query for %s got no answer", DOMAIN, qtype, shown);
	xp_outcome(((uint64_t)qtype << 40) ^ ((uint64_t)(doff >= 0) << 39) ^ ((uint64_t)answers << 32) ^ (uint64_t)(adv_nout ? adv_outs[0].len : 0));
}

/* a concrete name under the configured domain: the wildcard label becomes `wl` */
static int under(char *out, const char *prefix, int pl, const char *wildlabel)
{
	int n = 0;
	memcpy(out, prefix, pl); n = pl;
	if (pl && out[n - 1] != '.') out[n++] = '.';
	if (DOMAIN[0] == '*') { int l = (int)strlen(wildlabel); memcpy(out + n, wildlabel, l); n += l; strcpy(out + n, DOMAIN + 1); n += (int)strlen(DOMAIN + 1); }
	else { strcpy(out + n, DOMAIN); n += (int)strlen(DOMAIN); }
	out[n] = 0;
	return n;
}

static const int TYPES[] = { 2, 1, 10, 65399, 16, 33, 15, 5, 28 };
#define NTYPES 9

/* job = (tunnel domain, how the query reaches the server): IPv4 asker; IPv6 asker on the IPv6 listening socket;
 * IPv6 asker with an external address configured (-n) */
/* (a server that does not start with a valid domain is C17's business: this part just cannot run) */
static void boot_failed(const struct w_server_cfg *c, int state) { (void)c; (void)state; }
static struct sockaddr_storage X4, X6; static socklen_t ALEN4, ALEN6;
static void job(int j)
{
	int dj = j % NDOM, variant = j / NDOM;
	if (variant == 0) { X_ADDR = X4; ALEN = ALEN4; } else { X_ADDR = X6; ALEN = ALEN6; }
	struct w_server_cfg c = { .topdomain = DOMS[dj], .password = "x", .my_ip = "10.0.0.1", .netmask = 29, .mtu = 1130, .check_ip = 1, .bind_port = 5353, .srand_seed = 1 };
	DOMAIN = DOMS[dj];
	vw_init();
	W.hooks.on_sanitizer = on_san;
	if (variant == 2) c.ns_ip = "192.0.2.53";
	NS_IP_SET = variant == 2;
	adv_boot_failed = boot_failed;
	adv_boot(&c, variant != 0, 1);
	if (!vw_alive(0) || W.proc[0].state != VW_P_SELECT) { __atomic_fetch_add(&XS->incomplete, 1, __ATOMIC_RELAXED); return; }
	char name[600], pre[300];
	static const char SYM[] = { 'a', 'A', '0', '-', (char)0xe9, 'z', 'n', 'w' };
	int nsym = thorough ? 8 : 6;
	/* F1: up to three labels of length <= 2 */
	int nlab = 0; static char LAB[100][3];
	for (int a = 0; a < nsym; a++) { LAB[nlab][0] = SYM[a]; LAB[nlab][1] = 0; nlab++; }
	for (int a = 0; a < nsym; a++) for (int b = 0; b < nsym; b++) { if (!thorough && ((a + b) & 1)) continue; LAB[nlab][0] = SYM[a]; LAB[nlab][1] = SYM[b]; LAB[nlab][2] = 0; nlab++; }
	for (int depth = 0; depth <= 3; depth++) {
		int idx[3] = { 0, 0, 0 };
		long total = 1; for (int i = 0; i < depth; i++) total *= nlab;
		for (long t = 0; t < total; t++) {
			long r = t; int pl = 0;
			for (int i = 0; i < depth; i++) { idx[i] = r % nlab; r /= nlab; pl += snprintf(pre + pl, sizeof pre - pl, "%s%s", i ? "." : "", LAB[idx[i]]); }
			if (depth == 3 && !thorough && (t % 5)) continue;
			int nl = under(name, pre, pl, "xyz");
			for (int ty = 0; ty < (depth == 3 ? 2 : 4); ty++) ask(name, nl, TYPES[ty], (int)(t & 1));
		}
	}
	/* F4: ns. / www. in every letter case, and near misses */
	static const char *NW[] = { "ns", "NS", "nS", "Ns", "www", "WWW", "wWw", "Www", "nss", "ww", "wwww", "n", "ns.ns", "www.ns" };
	for (unsigned i = 0; i < sizeof NW / sizeof NW[0]; i++) { int nl = under(name, NW[i], (int)strlen(NW[i]), "q"); for (int ty = 0; ty < NTYPES; ty++) ask(name, nl, TYPES[ty], 1); }
	/* F2: first label of every length 1..63, echo request and other first characters, two fills */
	for (int len = 1; len <= 63; len++) for (int fill = 0; fill < 3; fill++) for (int first = 0; first < 4; first++) {
		int pl = 0;
		pre[pl++] = "zZvq"[first];
		while (pl < len) { pre[pl] = fill == 0 ? 'a' + pl % 26 : fill == 1 ? (char)0xe9 : "Ab0-"[pl & 3]; pl++; }
		int nl = under(name, pre, pl, "wild-card-label");
		for (int ty = 0; ty < NTYPES; ty++) ask(name, nl, TYPES[ty], len & 1);
		/* the same with a second 63-byte label in front of the domain */
		if (len % 9 == 0) { pre[pl++] = '.'; for (int i = 0; i < 63; i++) pre[pl++] = 'b'; nl = under(name, pre, pl, "w"); for (int ty = 0; ty < NTYPES; ty++) ask(name, nl, TYPES[ty], 0); }
	}
	/* F5: first label with a reserved length byte 64..191, under the tunnel domain (echo, version, other first characters) and outside */
	for (int len = 64; len <= 191; len += (thorough || len < 70 || len > 185 ? 1 : 7)) for (int first = 0; first < 4; first++) {
		int pl = 0;
		pre[pl++] = "zZvq"[first];
		while (pl < len) { pre[pl] = 'a' + pl % 26; pl++; }
		int nl = under(name, pre, pl, "w");
		RAWLABEL = len;
		for (int ty = 0; ty < NTYPES; ty++) ask(name, nl, TYPES[ty], len & 1);
		nl = snprintf(name, sizeof name, "%.*s.elsewhere.org", pl, pre);
		ask(name, nl, 1, 0); ask(name, nl, 16, 1);
		/* the reserved byte in front of the second label, after a label that would start a tunnel request */
		{ char pre2[300]; int p2 = snprintf(pre2, sizeof pre2, "%cab.%.*s", "zZvq"[first], pl, pre); nl = under(name, pre2, p2, "w"); ask(name, nl, 10, 0); ask(name, nl, 16, 1); ask(name, nl, 1, 0); }
		RAWLABEL = 0;
	}
	/* F6: query names that are too long as a whole (256..259 bytes on the wire, every label legal), under the tunnel domain:
	 * again no answer is demanded, but what the server emits must be well-formed (a name of at most 255 bytes) */
	for (int target = 256; target <= 259; target++) for (int first = 0; first < 2; first++) {
		int dl = under(name, "", 0, "w");
		int room = target - (dl + 2) - 1;
		if (room < 2) continue;
		int pl = 0, cur = 0;
		while (room > 0) {
			if (cur == 63 || room == 1) { if (room < 2) break; pre[pl++] = '.'; room -= 1; cur = 0; if (room < 2) { pl--; break; } }
			if (cur == 0) room--;            /* the label's length byte */
			{ char ch = pl == 0 ? "zv"[first] : (char)('a' + (pl % 26)); pre[pl++] = ch; } cur++; room--;
		}
		if (pl && pre[pl - 1] == '.') pl--;
		int nl = under(name, pre, pl, "w");
		RAWLABEL = 1;
		for (int ty = 0; ty < NTYPES; ty++) ask(name, nl, TYPES[ty], ty & 1);
		RAWLABEL = 0;
	}
	/* F3: names of maximal total length: 245..255 bytes on the wire, labels of 63/62/1 */
	for (int target = 240; target <= 256; target++) for (int shape = 0; shape < 3; shape++) {
		int dl = under(name, "", 0, "w");
		int room = target - (dl + 2) - 1;          /* wire length of the prefix labels */
		if (room < 2) continue;
		int pl = 0, lab = shape == 0 ? 63 : shape == 1 ? 31 : 1;
		pre[pl++] = 'z'; room -= 2; int cur = 1;
		while (room > 0) {
			if (cur == lab || room == 1) { if (room < 2) break; pre[pl++] = '.'; room -= 1; cur = 0; }
			pre[pl++] = 'a' + (pl % 26); cur++; room--;
		}
		if (pre[pl - 1] == '.') pl--;
		int nl = under(name, pre, pl, "w");
		for (int ty = 0; ty < NTYPES; ty++) ask(name, nl, TYPES[ty], 1);
	}
	/* names outside the domain (forwarded) with the same label-length sweep */
	for (int len = 1; len <= 63; len += (thorough ? 1 : 2)) {
		int pl = 0; while (pl < len) { pre[pl] = 'a' + pl % 26; pl++; }
		int nl = snprintf(name, sizeof name, "%.*s.elsewhere.org", pl, pre);
		ask(name, nl, 1, 0); ask(name, nl, 15, 1);
	}
	xp_sample("%s, tunnel domain %s: label families up to 3 labels, ns./www. variants, first-label lengths 1..63 x 9 record types, maximal names, forwarded names; last name asked: %.50s..", variant == 0 ? "IPv4 asker" : variant == 1 ? "IPv6 asker" : "IPv6 asker, -n 192.0.2.53", DOMAIN, name);
	__atomic_fetch_add(&XS->execs, 1, __ATOMIC_RELAXED);
}

int main(int argc, char **argv)
{
	hc_args a = hc_parse(argc, argv, "C10aux");
	thorough = a.thorough;
	vw_mkaddr(&X4, &ALEN4, "203.0.113.9", 4999); vw_mkaddr6(&X6, &ALEN6, "2001:db8::9", 4999); vw_mkaddr(&LOCALDNS, &ALEN, "127.0.0.1", 5353);
	X_ADDR = X4; ALEN = ALEN4;
	xp_init("C10", a.tier, 1024, a.budget_s);
	xp_guard(NULL, &W.cur, 1);
	if (a.replay) { xp_load_replay(a.replay); job(XC.job); return 0; }
	hc_quiet();
	xp_run_jobs(NDOM * 3, job, a.workers);
	XS->states = XS->counters[K_QUERIES]; XS->transitions = XS->counters[K_QUERIES] + XS->counters[K_ANSWERS] + XS->counters[K_FWD];
	char extra[400];
	snprintf(extra, sizeof extra, "\"aux_queries\":%ld,\"aux_answers_parsed\":%ld,\"ns_answers_checked\":%ld,\"a_answers_checked\":%ld,\"forwarded_copies_parsed\":%ld,\"unanswered\":%ld,\"domains\":%d,\"sanitizer_notes\":%ld",
		 XS->counters[K_QUERIES], XS->counters[K_ANSWERS], XS->counters[K_NS], XS->counters[K_A], XS->counters[K_FWD], XS->counters[K_SILENT], NDOM, XS->counters[K_SAN]);
	xp_print_stats(extra);
	return 0;
}
