/* C03 (no tunnel access without the password challenge) and C04 (session isolation).
 * E-B: depth-bounded exhaustive search over a finite alphabet of DNS-mode and raw-mode messages,
 * tun arrivals and time steps against the real server loop (image s in the adversary world).
 * ./auth --prop C03|C04 --tier quick|thorough            DESIGN.md 2, C03 / C04 */
#include "harness_common.h"
#include "vw.h"
#include "explore.h"
#include "images.h"
#include "refmd5.h"
#include "refdns.h"
#include "adv.h"
#include "tmsg.h"
#include "eb.h"
#include "srvstate.h"

IMG_SERVER(s)

static const char *PROP = "C03";
static int is03, is04, thorough;
static const char *DOM = "t.example.com";
/* a pass phrase with two non-ASCII (UTF-8) characters: bytes >= 0x80 next to ordinary ones (seeded C03-h: password words assembled
 * from signed chars, so that such a byte shadows the bytes before it in its word) */
static const char *PW = "se\xc3\x9f" "am-f\xc3\xbc" "r";
static unsigned char pw32[33];
#define NS 5                     /* /29: five session slots */
#define QT 10                    /* NULL queries: answers carry the payload verbatim */

enum { K_LETTERS, K_PRIV, K_SPOOF, K_ROUTE, K_VACK, K_REFUSED, K_LOGINS, K_TUNW, K_RAWOK, K_EXPIRED_REFUSED, K_SAN = 20 };

/* ---------------------------------------------------------------- alphabet */
enum { L_V, L_VBAD, L_LOGIN, L_I, L_S, L_O, L_N, L_R, L_P, L_DATA, L_RAWLOGIN, L_RAWDATA, L_RAWPING, L_Z, L_TUN, L_TIME, L_REPLAY };
enum { HK_CUR, HK_PREV, HK_OTHER, HK_PLUS1, HK_WRONG, HK_SHORT, HK_LASTONLY, HK_FIRSTONLY, HK_ALLBUTLAST, HK_ALLBUTFIRST, HK_WRONG17, HK_WRONG18, HK_TONUL, HK_OTHERPW };
enum { RK_PLUS1, RK_PLAIN, RK_WRONG, RK_LASTONLY, RK_ALLBUTLAST, RK_TONUL };
enum { SRC_A, SRC_B, SRC_C6, NSRC };
typedef struct letter { int kind, src, u, arg; char name[48]; } letter;
static letter LT[200]; static int nlt;
static int pd_bit[200], npd;
static struct sockaddr_storage SRC[NSRC]; static socklen_t SRCLEN[NSRC];
static const char *SRCN[NSRC] = { "A", "B", "C6" };

/* The responses the harness sends are computed by the implementation's own login_calculate() (what a real client built from
 * the same sources sends), not by the reference: whether that function follows the documented formula is C19's question; C03
 * asks whether access depends on answering *this session's* challenge, and must stay sharp when client and server share a
 * deviation (e.g. a response that ignores part of the challenge makes an old response valid again). */
void s_login_calculate(char *buf, int buflen, const char *pass, int seed);
static void impl_login(const unsigned char *pw, uint32_t ch, uint8_t *out) { s_login_calculate((char *)out, 16, (const char *)pw, (int)ch); }
/* first forced challenge: chosen (by search from 0x2b5d3f17 upwards, at start-up) so that the expected response to it starts with a
 * zero byte and the expected raw-login response (challenge + 1) contains one: a comparison that stops at a zero byte shows */
static uint32_t CH_BASE = 0x2b5d3f17u;

static void addl(int kind, int src, int u, int arg, const char *fmt, ...)
{
	letter *l = &LT[nlt++];
	l->kind = kind; l->src = src; l->u = u; l->arg = arg;
	if (kind == L_P || kind == L_DATA) pd_bit[nlt - 1] = npd++ % 32;
	va_list ap; va_start(ap, fmt); vsnprintf(l->name, sizeof l->name, fmt, ap); va_end(ap);
}

static uint32_t tun_of_slot[16], srv_tun_ip = 0x0A000001u;    /* read from the server's table after start-up (host order) */
#define TUNIP(slot) (tun_of_slot[(slot) & 15])

static void mk_alphabet(void)
{
	static const char *HKN[] = { "cur", "prev", "other", "cur+1", "wrong", "short", "only-last-byte-right", "only-first-byte-right", "all-but-last-byte-right", "all-but-first-byte-right", "wrong,17-bytes", "wrong,18-bytes", "right-up-to-its-first-zero-byte", "for-a-password-differing-in-its-first-two-bytes" };
	static const char *RKN[] = { "cur+1", "cur", "wrong", "only-last-byte-right", "all-but-last-byte-right", "right-up-to-its-first-zero-byte" };
	for (int s = 0; s < 2; s++) addl(L_V, s, -1, 0, "V(%s)", SRCN[s]);
	if (is03) addl(L_VBAD, SRC_A, -1, 0, "Vbad(A)");
	for (int s = 0; s < 2; s++) for (int u = 0; u < 2; u++) {
		int nhk = is03 ? 5 : 1;
		for (int hk = 0; hk < nhk; hk++) addl(L_LOGIN, s, u, hk, "L(%s,u%d,%s)", SRCN[s], u, HKN[hk]);
		if (is04) addl(L_LOGIN, s, u, HK_WRONG, "L(%s,u%d,wrong)", SRCN[s], u);
		/* responses that agree with the right one in some byte positions only */
		if (is03) for (int hk = HK_LASTONLY; hk <= HK_ALLBUTFIRST; hk++) addl(L_LOGIN, s, u, hk, "L(%s,u%d,%s)", SRCN[s], u, HKN[hk]);
		/* ... or only up to the first zero byte of the expected response (the forced first challenge yields one, see CH_BASE) */
		if (is03 && s == 0) addl(L_LOGIN, s, u, HK_TONUL, "L(%s,u%d,%s)", SRCN[s], u, HKN[HK_TONUL]);
		if (is03 && s == 0) addl(L_LOGIN, s, u, HK_OTHERPW, "L(%s,u%d,%s)", SRCN[s], u, HKN[HK_OTHERPW]);
	}
	if (is03) {
		addl(L_LOGIN, SRC_A, 5, HK_WRONG, "L(A,u5,wrong)");
		addl(L_LOGIN, SRC_A, 0x80, HK_WRONG, "L(A,u128,wrong)");
		addl(L_LOGIN, SRC_A, 0, HK_SHORT, "L(A,u0,short)");
		/* wrong responses in messages of exactly 17 and 18 decoded bytes (the real client sends 19): the boundaries of the handler's length checks */
		for (int u = 0; u < 2; u++) for (int hk = HK_WRONG17; hk <= HK_WRONG18; hk++) addl(L_LOGIN, SRC_A, u, hk, "L(A,u%d,%s)", u, HKN[hk]);
	}
	for (int s = 0; s < 2; s++) for (int u = 0; u < 2; u++) {
		addl(L_I, s, u, 0, "I(%s,u%d)", SRCN[s], u);
		addl(L_S, s, u, 6, "S(%s,u%d,base64)", SRCN[s], u);
		addl(L_O, s, u, 'l', "O(%s,u%d,lazy)", SRCN[s], u);
		addl(L_N, s, u, 200, "N(%s,u%d,200)", SRCN[s], u);
		addl(L_R, s, u, 50, "R(%s,u%d,50)", SRCN[s], u);
		addl(L_P, s, u, 0, "P(%s,u%d)", SRCN[s], u);
		addl(L_DATA, s, u, -1, "DATA(%s,u%d->tun)", SRCN[s], u);
	}
	addl(L_DATA, SRC_A, 0, 1, "DATA(A,u0->slot1)");
	addl(L_DATA, SRC_B, 1, 0, "DATA(B,u1->slot0)");
	if (is03) addl(L_I, SRC_A, 5, 0, "I(A,u5)");
	for (int s = 0; s < 2; s++) for (int u = 0; u < 2; u++) {
		for (int rk = 0; rk < (is03 ? 3 : 2); rk++) addl(L_RAWLOGIN, s, u, rk == 1 && is04 ? RK_WRONG : rk, "rawLOGIN(%s,u%d,%s)", SRCN[s], u, RKN[rk == 1 && is04 ? RK_WRONG : rk]);
		if (is03) for (int rk = RK_LASTONLY; rk <= RK_ALLBUTLAST; rk++) addl(L_RAWLOGIN, s, u, rk, "rawLOGIN(%s,u%d,%s)", SRCN[s], u, RKN[rk]);
		if (is03 && s == 0) addl(L_RAWLOGIN, s, u, RK_TONUL, "rawLOGIN(%s,u%d,%s)", SRCN[s], u, RKN[RK_TONUL]);
		addl(L_RAWDATA, s, u, -1, "rawDATA(%s,u%d)", SRCN[s], u);
		addl(L_RAWPING, s, u, 0, "rawPING(%s,u%d)", SRCN[s], u);
	}
	if (is03) addl(L_Z, SRC_A, -1, 0, "Z(A)");
	/* C04: the bytes of the session's own latest data query, sent again from another address (and from its own, e.g. after expiry) */
	if (is04) for (int u = 0; u < 2; u++) { addl(L_REPLAY, u == 0 ? SRC_B : SRC_A, u, 0, "REPLAY(%s,last data query of u%d)", SRCN[u == 0 ? SRC_B : SRC_A], u); addl(L_REPLAY, u == 0 ? SRC_A : SRC_B, u, 0, "REPLAY(%s,last data query of u%d)", SRCN[u == 0 ? SRC_A : SRC_B], u); }
	if (is04) for (int u = 0; u < 2; u++) {
		addl(L_P, SRC_C6, u, 0, "P(C6,u%d)", u);
		addl(L_DATA, SRC_C6, u, -1, "DATA(C6,u%d->tun)", u);
		addl(L_LOGIN, SRC_C6, u, HK_CUR, "L(C6,u%d,cur)", u);
	}
	for (int u = 0; u < 2; u++) addl(L_TUN, -1, u, 0, "TUN(->slot%d)", u);
	if (is04) {
		addl(L_TUN, -1, -1, 0x0A000001, "TUN(->server)");
		addl(L_TUN, -1, -1, 0x0A000006, "TUN(->unassigned)");
		addl(L_TUN, -1, -1, 0x08080808, "TUN(->outside)");
		addl(L_TIME, -1, -1, 5, "+5s"); addl(L_TIME, -1, -1, 55, "+55s"); addl(L_TIME, -1, -1, 61, "+61s");
	} else {
		addl(L_TIME, -1, -1, 30, "+30s"); addl(L_TIME, -1, -1, 61, "+61s");
	}
}

/* ---------------------------------------------------------------- model (harness side, part of the state key) */
typedef struct model {
	int alloc[NS]; uint32_t cur[NS], prev[NS]; int hasprev[NS];
	int authed[NS];      /* a login with the correct response for the slot's current challenge was SENT since the last VACK */
	int logged[NS];      /* the server showed a login-accept for the slot since the last VACK */
	int rawed[NS];       /* authed and a correct raw login was sent since the last VACK */
	int rawok[NS];       /* the server answered a raw login for the slot since the last VACK */
	int codec[NS];       /* upstream codec as acknowledged on the wire */
	struct sockaddr_storage bound[NS]; int boundset[NS];
	/* time() of the last keep-alive bearing message of the session: lo = certainly accepted by the server (new,
	 * non-duplicate message from the bound address of a live logged-in session), hi = possibly accepted (e.g. an exact
	 * repeat of an earlier ping, which the server may serve from its answer cache without refreshing its timer) */
	long lo[NS], hi[NS];
	unsigned seen[NS];   /* ping/data letters already sent for this slot since the last VACK (repeats are duplicates) */
	int check_ip;
	int nv;              /* version requests sent so far (selects the forced challenge) */
	int fed[NS];         /* since the slot's last VACK something was offered for its tunnel address: a packet on the server's tun, or an upstream packet of another session addressed to it */
	int lastdatalen[NS]; unsigned char lastdata[NS][400];      /* the slot's latest data query as sent from its bound address (C04: replayed verbatim by others) */
} model;
static model M;
static struct tun_user *pristine;      /* users[] as init_users() left it */
static int snap_regions(vw_region *out, int max, char *note);
static void snap_restored(const char *note);

static long now_s(void) { return (long)(VW_EPOCH + W.now / 1000000); }

static int ip_eq(const struct sockaddr_storage *a, const struct sockaddr_storage *b)
{
	if (a->ss_family != b->ss_family) return 0;
	if (a->ss_family == AF_INET) return ((const struct sockaddr_in *)a)->sin_addr.s_addr == ((const struct sockaddr_in *)b)->sin_addr.s_addr;
	return !memcmp(&((const struct sockaddr_in6 *)a)->sin6_addr, &((const struct sockaddr_in6 *)b)->sin6_addr, 16);
}

static void viol(const char *what, const char *fmt, ...)
{
	if (hc_san_as) return;
	char detail[380], sig[120];
	va_list ap; va_start(ap, fmt); vsnprintf(detail, sizeof detail, fmt, ap); va_end(ap);
	snprintf(sig, sizeof sig, "%s:%s", PROP, what);
	xp_violation(sig, "%s", detail);
}
static void on_san(const char *sig) { if (hc_san_report(sig, 0, "the authentication/isolation search")) return; xp_count(K_SAN, 1); }

/* ---------------------------------------------------------------- snapshots of the real struct */
typedef struct setts { const struct encoder *enc; char downenc; int lazy, fragsize, conn; } setts;
static void get_setts(int u, setts *s) { struct tun_user *us = s_w_users(); memset(s, 0, sizeof *s); s->enc = us[u].encoder; s->downenc = us[u].downenc; s->lazy = us[u].lazy; s->fragsize = us[u].fragsize; s->conn = us[u].conn; }
static struct tun_user *victim_copy;


/* ---------------------------------------------------------------- applying one letter */
static int slot_of_question(const rd_msg *m, int *cmd)
{
	/* first label of the question: command char, then the userid in the command's own format */
	int l0 = m->qname[0];
	if (l0 < 2) { *cmd = 0; return -1; }
	int c = tolower(m->qname[1]);
	*cmd = c;
	if (c >= '0' && c <= '9') return c - '0';
	if (c >= 'a' && c <= 'f') return c - 'a' + 10;
	if (c == 'p' || c == 'l' || c == 'n') {
		/* base32 payload: first byte = userid */
		int a = -1, b = -1;
		const char *p1 = strchr(TM_B32, tolower(m->qname[2])), *p2 = l0 >= 3 ? strchr(TM_B32, tolower(m->qname[3])) : NULL;
		if (p1 && p2) { a = (int)(p1 - TM_B32); b = (int)(p2 - TM_B32); return ((a << 3) | (b >> 2)) & 0xff; }
		return -1;
	}
	if (c == 'i' || c == 's' || c == 'o') { const char *p1 = strchr(TM_B32, tolower(m->qname[2])); return p1 ? (int)(p1 - TM_B32) : -1; }
	if (c == 'r') { const char *p1 = strchr(TM_B32, tolower(m->qname[2])); return p1 ? ((int)(p1 - TM_B32) >> 1) & 15 : -1; }
	return -1;
}

static int is_str(const uint8_t *p, int n, const char *s) { return n == (int)strlen(s) && !memcmp(p, s, n); }

static int apply(int li)
{
	const letter *L = &LT[li];
	uint8_t pkt[800]; int plen = -1;
	int u = L->u;
	struct tun_user *us = s_w_users();
	int nslots = s_w_created_users();
	if (nslots > NS) nslots = NS;
	setts before[NS];
	for (int v = 0; v < nslots; v++) get_setts(v, &before[v]);
	int id = 0x100 + li;
	int cmc = 0x2a00 + li;           /* fixed per letter: repeating a letter repeats the exact query */
	long t_now = now_s();

	/* which letters are enabled */
	if (L->kind == L_LOGIN && (L->arg == HK_CUR || L->arg == HK_PLUS1 || L->arg >= HK_LASTONLY) && !(u < NS && M.alloc[u])) return 1;
	if (L->kind == L_LOGIN && L->arg == HK_PREV && !(u < NS && M.alloc[u] && M.hasprev[u])) return 1;
	if (L->kind == L_LOGIN && L->arg == HK_OTHER && !(u < NS && M.alloc[u] && M.alloc[1 - u])) return 1;
	if (L->kind == L_RAWLOGIN && L->arg != RK_WRONG && !(u < NS && M.alloc[u])) return 1;
	if (L->kind == L_REPLAY && !(u < NS && M.alloc[u] && M.lastdatalen[u] > 0)) return 1;
	if (L->kind == L_LOGIN && L->arg == HK_TONUL) { uint8_t r[16]; impl_login(pw32, M.cur[u], r); if (!memchr(r, 0, 15)) return 1; }
	if (L->kind == L_RAWLOGIN && L->arg == RK_TONUL) { uint8_t r[16]; impl_login(pw32, M.cur[u] + 1, r); if (!memchr(r, 0, 15)) return 1; }

	/* C04 (a): is this a request naming u from an address other than the one bound to u? */
	int spoof = 0;
	if (is04 && M.check_ip && L->src >= 0 && u >= 0 && u < NS && M.alloc[u] && M.boundset[u] && !ip_eq(&SRC[L->src], &M.bound[u])) {
		switch (L->kind) {
		case L_LOGIN: case L_I: case L_S: case L_O: case L_N: case L_R: case L_P: case L_DATA: case L_REPLAY: case L_RAWDATA: case L_RAWPING: spoof = 1; break;
		case L_RAWLOGIN: spoof = (L->arg != RK_PLUS1); break;     /* a correct raw login may rebind */
		}
		if (spoof) memcpy(victim_copy, &us[u], sizeof *victim_copy);
	}
	/* C04 (c): the session is silent for more than 60 s -> must be refused */
	int expired = (is04 && u >= 0 && u < NS && M.alloc[u] && M.hi[u] + 60 < t_now);

	unsigned rand_before = W.proc[0].rand_state;
	adv_clear();
	switch (L->kind) {
	case L_V: {
		/* the challenges the server hands out are forced: each differs from the one before it in one byte only (top byte, low bit,
		 * second, third byte, ...), so that a response which does not depend on all of the challenge shows up as an accepted replay */
		static const uint32_t FLIP[6] = { 0x41000000u, 0x00000001u, 0x00000100u, 0x00010000u, 0x3e000000u, 0x000000fau };
		uint32_t ch = CH_BASE;
		for (int i = 0; i < M.nv; i++) ch ^= FLIP[i % 6];
		M.nv++;
		W.proc[0].nrand_forced = 1; W.proc[0].rand_forced[0] = (int)(ch & 0x7fffffffu); W.proc[0].rand_forced_pos = 0;
		plen = tm_version(pkt, id, QT, 0x00000502, cmc, DOM);
		break;
	}
	case L_VBAD: plen = tm_version(pkt, id, QT, 0x00000501, cmc, DOM); break;
	case L_LOGIN: {
		uint8_t h[16];
		uint32_t ch = 0x31337;
		if (u < NS && M.alloc[u]) ch = M.cur[u];
		switch (L->arg) {
		case HK_CUR: impl_login(pw32, ch, h); break;
		case HK_PREV: impl_login(pw32, M.prev[u], h); break;
		case HK_OTHER: impl_login(pw32, M.cur[1 - u], h); break;
		case HK_PLUS1: impl_login(pw32, ch + 1, h); break;
		case HK_LASTONLY: { uint8_t r[16]; impl_login(pw32, ch, r); memset(h, 0x5a, 16); h[15] = r[15]; if (h[0] == r[0]) h[0] ^= 1; break; }
		case HK_FIRSTONLY: { uint8_t r[16]; impl_login(pw32, ch, r); memset(h, 0x5a, 16); h[0] = r[0]; if (h[15] == r[15]) h[15] ^= 1; break; }
		case HK_ALLBUTLAST: impl_login(pw32, ch, h); h[15] ^= 0x01; break;
		case HK_ALLBUTFIRST: impl_login(pw32, ch, h); h[0] ^= 0x80; break;
		case HK_OTHERPW: { unsigned char o[33]; memcpy(o, pw32, 33); o[0] = 'Z'; o[1] = 'z'; impl_login(o, ch, h); break; }     /* another password, right challenge */
		case HK_TONUL: { impl_login(pw32, ch, h); int j = (int)((uint8_t *)memchr(h, 0, 15) - h); for (int k = j + 1; k < 16; k++) h[k] ^= 0x5a; break; }
		default: memset(h, 0x5a, 16); break;
		}
		plen = tm_login(pkt, id, QT, u, h, L->arg == HK_SHORT ? 12 : L->arg == HK_WRONG17 ? 14 : L->arg == HK_WRONG18 ? 15 : 16, cmc, DOM);
		break;
	}
	case L_I: plen = tm_short(pkt, id, QT, 'i', tm_5to8(u), -1, cmc, DOM); break;
	case L_S: plen = tm_short(pkt, id, QT, 's', tm_5to8(u), tm_5to8(L->arg), cmc, DOM); break;
	case L_O: plen = tm_short(pkt, id, QT, 'o', tm_5to8(u), L->arg, cmc, DOM); break;
	case L_N: plen = tm_setfrag(pkt, id, QT, u, L->arg, cmc, DOM); break;
	case L_R: plen = tm_fragprobe(pkt, id, QT, u, L->arg, cmc, 40, DOM); break;
	case L_P: plen = tm_ping(pkt, id, QT, u, 0, 0, cmc, DOM); break;
	case L_DATA: case L_RAWDATA: {
		uint8_t ip[200], z[300];
		uint32_t dst = L->arg < 0 ? 0xC0A80101u /* beyond the tunnel: goes to the server's tun */ : TUNIP(L->arg);
		int n = tm_ippkt(ip, 28, TUNIP(u), dst, 100 + li);
		int zl = tm_compress(ip, n, z, sizeof z);
		if (L->kind == L_RAWDATA) plen = tm_raw(pkt, 0x20, u, z, zl);
		else {
			/* a fresh upstream sequence number every time would make the alphabet infinite: seqno is derived from the
			 * server's current one (+1 = "really new packet") so that the fragment is always accepted as new data */
			int seq = (u < nslots ? (us[u].inpacket.seqno + 1) & 7 : 1);
			int codec = (u < NS && M.codec[u] == 6) ? REF_B64 : REF_B32;
			plen = tm_data(pkt, id, QT, u, seq, 0, 0, 0, 1, "abcdefghijklmnopqrstuvwxyz0123456789"[li % 36], codec, z, zl, DOM);
		}
		break;
	}
	case L_RAWLOGIN: {
		uint8_t h[16];
		uint32_t ch = (u < NS && M.alloc[u]) ? M.cur[u] : 0x31337;
		if (L->arg == RK_PLUS1) impl_login(pw32, ch + 1, h); else if (L->arg == RK_PLAIN) impl_login(pw32, ch, h);
		else if (L->arg == RK_LASTONLY) { uint8_t r[16]; impl_login(pw32, ch + 1, r); memset(h, 0xa5, 16); h[15] = r[15]; }
		else if (L->arg == RK_ALLBUTLAST) { impl_login(pw32, ch + 1, h); h[15] ^= 0x10; }
		else if (L->arg == RK_TONUL) { impl_login(pw32, ch + 1, h); int j = (int)((uint8_t *)memchr(h, 0, 15) - h); for (int k = j + 1; k < 16; k++) h[k] ^= 0x5a; }
		else memset(h, 0xa5, 16);
		plen = tm_raw(pkt, 0x10, u, h, 16);
		break;
	}
	case L_RAWPING: plen = tm_raw(pkt, 0x30, u, NULL, 0); break;
	case L_REPLAY: plen = M.lastdatalen[u]; memcpy(pkt, M.lastdata[u], plen); break;
	case L_Z: { char s[] = "zabcAbC09"; plen = tm_query(pkt, sizeof pkt, id, QT, s, (int)strlen(s), DOM, 0); break; }
	case L_TUN: {
		uint8_t ip[200];
		uint32_t dst = L->u >= 0 ? TUNIP(L->u) : (uint32_t)L->arg == 0x0A000001u ? srv_tun_ip : (uint32_t)L->arg;
		int n = tm_ippkt(ip, 40, 0xC0A80101u, dst, 200 + li);
		adv_tun_in(ip, n);
		break;
	}
	case L_TIME: adv_advance((int64_t)L->arg * 1000000); break;
	}
	/* what is SENT (one-directional C03 model): recorded before the server reacts, because the reaction to the very
	 * same datagram (e.g. a queued tun packet flushed in raw mode right after the raw login) already counts */
	if (L->kind == L_TUN && L->u >= 0 && L->u < NS) M.fed[L->u] = 1;
	if ((L->kind == L_DATA || L->kind == L_RAWDATA) && L->arg >= 0 && L->arg < NS) M.fed[L->arg] = 1;
	if (L->kind == L_LOGIN && L->arg == HK_CUR && u < NS && M.alloc[u]) M.authed[u] = 1;
	if (L->kind == L_RAWLOGIN && L->arg == RK_PLUS1 && u < NS && M.alloc[u] && M.authed[u]) M.rawed[u] = 1;
	if (L->src >= 0) {
		if (plen < 0) vw_fatal("letter %s: could not build the datagram", L->name);
		if (L->kind == L_DATA && u >= 0 && u < NS && M.alloc[u] && plen <= 400 && (!M.check_ip || (M.boundset[u] && ip_eq(&SRC[L->src], &M.bound[u])))) { M.lastdatalen[u] = plen; memcpy(M.lastdata[u], pkt, plen); }
		adv_send(&SRC[L->src], SRCLEN[L->src], pkt, plen);
	}
	/* settle: a query parked for the 20 ms "send real soon" sweep is answered within this letter */
	if (vw_alive(0) && W.proc[0].deadline != VW_NEVER && W.proc[0].deadline - W.now <= 20000) vw_run_until(W.proc[0].deadline), vw_run_quiescent(0);
	if (L->kind != L_V) W.proc[0].rand_state = rand_before;      /* rand() outside 'V' only fills probe answers */
	W.proc[0].nrand_forced = 0; W.proc[0].rand_forced_pos = 0;      /* a forced challenge the server did not draw is not left behind */
	xp_count(K_LETTERS, 1);
	if (!vw_alive(0)) { viol("server-exited", "server loop ended after %s", L->name); return 0; }

	/* ------------------------------------------------------------ inspect the outputs */
	int accepted_keepalive = 0, saw_badip = 0, n_dns_to_src = 0, other_outputs = 0, tunw = 0;
	uint64_t oc = 0xcbf29ce484222325ULL ^ (uint64_t)L->kind * 131 ^ (uint64_t)(L->arg & 0xff) * 7;
	for (int i = 0; i < adv_nout; i++) {
		adv_out *o = &adv_outs[i];
		if (o->kind == 3) {
			tunw++;
			xp_count(K_TUNW, 1);
			int ok = (L->kind == L_DATA && u < NS && M.authed[u]) || (L->kind == L_RAWDATA && u < NS && M.rawed[u]);
			if (is03 && !ok) viol("tun-write-without-login", "server wrote %d bytes to its tun after %s although slot %d never answered its challenge%s", o->full_len, L->name, u, L->kind == L_RAWDATA ? " and switched to raw mode" : "");
			if (ok) xp_count(K_PRIV, 1);
			oc = oc * 1099511628211ULL ^ 0x77;
			continue;
		}
		if (o->kind != 0 && o->kind != 1) { other_outputs++; continue; }
		int to_src = L->src >= 0 && vw_addr_eq(&o->dst, &SRC[L->src]);
		if (o->len >= 4 && o->data[0] == 0x10 && o->data[1] == 0xd1 && o->data[2] == 0x9e) {
			int cmd = o->data[3] & 0xf0, ru = o->data[3] & 15;
			oc = oc * 1099511628211ULL ^ (0x100 + cmd);
			if (cmd == 0x10) {
				int ok = L->kind == L_RAWLOGIN && L->arg == RK_PLUS1 && u < NS && M.authed[u];
				if (is03 && !ok) viol("raw-login-accepted-without-dns-login", "server answered a raw login for slot %d after %s (slot answered its challenge: %d)", ru, L->name, u < NS ? M.authed[u] : 0);
				if (ok) { xp_count(K_PRIV, 1); xp_count(K_RAWOK, 1); }
				if (L->kind == L_RAWLOGIN && u < NS) { M.rawok[u] = 1; memcpy(&M.bound[u], &SRC[L->src], sizeof M.bound[u]); M.boundset[u] = 1; M.lo[u] = M.hi[u] = t_now; }
			} else if (cmd == 0x30) {
				int ok = L->kind == L_RAWPING && u < NS && M.rawed[u];
				if (is03 && !ok) viol("raw-ping-answered-without-raw-login", "server answered a raw ping for slot %d after %s", ru, L->name);
				if (ok) xp_count(K_PRIV, 1);
			} else if (cmd == 0x20) {
				/* tunnel payload sent in raw mode to slot ru */
				int ok = ru < NS && M.rawed[ru];
				if (is03 && !ok) viol("raw-data-sent-to-session-without-raw-login", "server sent raw tunnel data for slot %d after %s", ru, L->name);
				if (ok) xp_count(K_PRIV, 1);
			}
			if (!to_src) other_outputs++; else n_dns_to_src++;
			if (is04 && L->kind == L_TUN) goto route_check;
			continue;
		}
		{
			static rd_msg m; const uint8_t *pl; int cmdc = 0;
			int n = tm_null_payload(o->data, o->len, &pl, &m);
			if (n < 0) { other_outputs++; continue; }
			int qs = slot_of_question(&m, &cmdc);
			int badip = is_str(pl, n, "BADIP");
			if (badip) saw_badip++;
			if (to_src) n_dns_to_src++; else other_outputs++;
			oc = oc * 1099511628211ULL ^ (uint64_t)(cmdc * 4 + (badip ? 1 : n > 2 ? 2 : 3));
			/* handshake replies are classified only when the answered question is this letter's own command; an
			 * answer to any other (held) question comes from the ping/data path and is judged as a data answer */
			static const char KCMD[] = { 'v', 'v', 'l', 'i', 's', 'o', 'n', 'r', 'p', 'x', 0, 0, 0, 'z', 0, 0 };
			int own = to_src && L->kind <= L_TIME && (KCMD[L->kind] == cmdc || (L->kind == L_DATA && cmdc >= '0' && cmdc <= 'f' && isxdigit(cmdc)));
			if (!own) { cmdc = 'p'; if (u >= 0 && u < NS) qs = u; }
			switch (cmdc) {
			case 'v':
				if (n >= 9 && !memcmp(pl, "VACK", 4)) {
					int v = pl[8]; uint32_t seed = (pl[4] << 24) | (pl[5] << 16) | (pl[6] << 8) | pl[7];
					xp_count(K_VACK, 1);
					if (getenv("AUTH_DEBUG")) dprintf(2, "VACK slot %d seed %08x (prev cur %08x)\n", v, seed, v < NS ? M.cur[v] : 0);
					if (v < NS) {
						/* C04 (c): never hand out a slot whose session was active during the last 60 s */
						if (is04 && M.alloc[v] && !(M.lo[v] + 60 < t_now))
							viol("slot-taken-over-while-active", "VACK after %s hands out slot %d whose session was last active %ld s ago", L->name, v, t_now - M.lo[v]);
						if (M.alloc[v]) { M.prev[v] = M.cur[v]; M.hasprev[v] = 1; }
						M.alloc[v] = 1; M.cur[v] = seed; M.authed[v] = M.logged[v] = M.rawed[v] = M.rawok[v] = 0; M.codec[v] = 5; M.lastdatalen[v] = 0; M.fed[v] = 0;
						memcpy(&M.bound[v], &o->dst, sizeof M.bound[v]); M.boundset[v] = 1; M.lo[v] = M.hi[v] = t_now; M.seen[v] = 0;
						get_setts(v, &before[v]);      /* a new session legitimately resets the slot's settings */
					}
				} else if (is04 && L->kind == L_V && n >= 4 && !memcmp(pl, "VFUL", 4)) {
					for (int v = 0; v < nslots; v++) if (!M.alloc[v] || M.hi[v] + 60 < t_now) { viol("reusable-slot-not-handed-out", "server full (VFUL) after %s although slot %d is %s", L->name, v, M.alloc[v] ? "silent for more than 60 s" : "unused"); break; }
				}
				break;
			case 'l':
				if (!badip && !is_str(pl, n, "LNAK") && !is_str(pl, n, "BADLEN")) {
					int ok = L->kind == L_LOGIN && L->arg == HK_CUR && qs == u;
					xp_count(K_LOGINS, 1);
					if (is03 && !ok) viol("login-accepted-with-wrong-response", "server accepted the login (%.*s) after %s, which does not carry the response for slot %d's current challenge", n > 40 ? 40 : n, pl, L->name, qs);
					if (ok) xp_count(K_PRIV, 1);
					if (qs >= 0 && qs < NS) M.logged[qs] = 1;
				}
				if (!badip && L->kind == L_LOGIN && u < NS && !is_str(pl, n, "BADLEN")) accepted_keepalive = 1;
				break;
			case 'i':
				if (n >= 5 && pl[0] == 'I' && !badip) { int ok = u >= 0 && u < NS && M.authed[u] && L->kind == L_I; if (is03 && !ok) viol("address-disclosed-without-login", "server disclosed its address after %s", L->name); if (ok) xp_count(K_PRIV, 1); }
				break;
			case 's':
				if (is_str(pl, n, "Base32") || is_str(pl, n, "Base64") || is_str(pl, n, "Base64u") || is_str(pl, n, "Base128")) {
					int ok = L->kind == L_S && u < NS && M.authed[u];
					if (is03 && !ok) viol("codec-switched-without-login", "server acknowledged an upstream codec switch (%.*s) after %s", n, pl, L->name);
					if (ok) xp_count(K_PRIV, 1);
					if (u >= 0 && u < NS && is_str(pl, n, "Base64")) M.codec[u] = 6;
				}
				break;
			case 'o':
				if (!badip && !is_str(pl, n, "BADLEN") && !is_str(pl, n, "BADCODEC")) { int ok = L->kind == L_O && u < NS && M.authed[u]; if (is03 && !ok) viol("option-changed-without-login", "server acknowledged an option change (%.*s) after %s", n > 12 ? 12 : n, pl, L->name); if (ok) xp_count(K_PRIV, 1); }
				break;
			case 'n':
				if (n == 2 && !badip) { int ok = L->kind == L_N && u < NS && M.authed[u]; if (is03 && !ok) viol("fragsize-set-without-login", "server acknowledged fragment size %d after %s", (pl[0] << 8) | pl[1], L->name); if (ok) xp_count(K_PRIV, 1); }
				break;
			case 'r':
				if (!badip && !is_str(pl, n, "BADLEN") && !is_str(pl, n, "BADFRAG")) { int ok = L->kind == L_R && u < NS && M.authed[u]; if (is03 && !ok) viol("probe-answered-without-login", "server sent a %d-byte fragment-size probe answer after %s", n, L->name); if (ok) xp_count(K_PRIV, 1); }
				break;
			default:
				if (cmdc == 'p' || isxdigit(cmdc)) {
					if (!badip && L->src >= 0 && to_src && (L->kind == L_P || L->kind == L_DATA)) accepted_keepalive = 1;
					if (!badip && n > 2 && (pl[0] & 0x80)) {
						/* answer with a data header and tunnel payload, for the session that asked */
						int ok = qs >= 0 && qs < NS && M.authed[qs];
						if (is03 && !ok) viol("tunnel-data-sent-to-session-without-login", "server sent %d payload bytes to slot %d (%s) after %s", n - 2, qs, vw_addr_str(&o->dst), L->name);
						if (ok) xp_count(K_PRIV, 1);
						/* C04: tunnel data reaches a session only if something was addressed to it since it got its slot */
						if (is04) {
							/* the recipient by address (an answer to a held query does not answer this letter's command); judged
							 * only when exactly one slot is bound to that address */
							int rcp = -1, nr = 0;
							for (int v = 0; v < NS; v++) if (M.alloc[v] && M.boundset[v] && vw_addr_eq(&o->dst, &M.bound[v])) { rcp = v; nr++; }
							if (nr == 1 && !M.fed[rcp])
								viol("tunnel-data-from-before-the-session", "%s: %d payload bytes were sent to slot %d (%s) although nothing has been addressed to its tunnel address since the slot was handed out", L->name, n - 2, rcp, vw_addr_str(&o->dst));
						}
					}
				}
				break;
			}
		}
		if (is04 && L->kind == L_TUN) {
route_check:;
			/* C04 (b): anything emitted because of a tun packet for address X goes to the live, logged-in owner of X */
			int v = L->u;
			xp_count(K_ROUTE, 1);
			if (v < 0) viol("tun-packet-for-unowned-address-sent", "a tun packet for %s caused a datagram to %s", L->name, vw_addr_str(&o->dst));
			else if (!(M.alloc[v] && M.logged[v] && !(M.hi[v] + 60 < t_now)))
				viol("tun-packet-sent-to-dead-session", "%s: slot %d is %s but a datagram went to %s", L->name, v, !M.alloc[v] ? "unused" : !M.logged[v] ? "not logged in" : "silent for more than 60 s", vw_addr_str(&o->dst));
			else if (M.check_ip && !ip_eq(&o->dst, &M.bound[v]))
				viol("tun-packet-sent-to-foreign-address", "%s: owner is bound to %s but the datagram went to %s", L->name, vw_addr_str(&M.bound[v]), vw_addr_str(&o->dst));
		}
	}
	if (adv_out_dropped) vw_fatal("adv output table overflow");

	/* keep-alive bookkeeping (narrow sense, see DESIGN.md C04): messages the server accepted from the session */
	if (u >= 0 && u < NS && M.alloc[u] && L->src >= 0) {
		int from_bound = !M.check_ip || (M.boundset[u] && ip_eq(&SRC[L->src], &M.bound[u]));
		int live_sure = !(M.lo[u] + 60 < t_now), live_maybe = !(M.hi[u] + 60 < t_now);
		int cond = 0, first = 1;
		if (L->kind == L_P || L->kind == L_DATA) {
			unsigned bit = 1u << pd_bit[li];
			cond = from_bound && M.logged[u] && !saw_badip;
			first = !(M.seen[u] & bit);
			M.seen[u] |= bit;
		}
		if (L->kind == L_REPLAY) { cond = from_bound && M.logged[u] && !saw_badip; first = 0; }      /* an exact repeat: may be served from the answer cache */
		if (L->kind == L_LOGIN) cond = accepted_keepalive && from_bound;
		if (L->kind == L_RAWDATA || L->kind == L_RAWPING) cond = from_bound && M.logged[u] && M.rawok[u];
		if (cond && live_sure && first) M.lo[u] = M.hi[u] = t_now;
		else if (cond && live_maybe) M.hi[u] = t_now;
	}

	/* C03: session settings may only change for a slot that answered its challenge */
	if (is03) for (int v = 0; v < nslots; v++) {
		setts a; get_setts(v, &a);
		if (memcmp(&a, &before[v], sizeof a) && !M.authed[v])
			viol("session-settings-changed-without-login", "%s changed settings of slot %d (codec %s->%s downenc %c->%c lazy %d->%d fragsize %d->%d conn %d->%d) although it never answered its challenge",
			     L->name, v, before[v].enc ? before[v].enc->name : "-", a.enc ? a.enc->name : "-", before[v].downenc ? before[v].downenc : '-', a.downenc ? a.downenc : '-', before[v].lazy, a.lazy, before[v].fragsize, a.fragsize, before[v].conn, a.conn);
	}
	/* C04 (a) */
	if (spoof) {
		xp_count(K_SPOOF, 1);
		if (memcmp(victim_copy, &us[u], sizeof *victim_copy)) {
			size_t off = 0; const unsigned char *x = (const void *)victim_copy, *y = (const void *)&us[u];
			while (off < sizeof *victim_copy && x[off] == y[off]) off++;
			viol("spoofed-request-changed-victim-session", "%s comes from %s but slot %d is bound to %s: the session record changed (first difference at byte offset %zu)", L->name, vw_addr_str(&SRC[L->src]), u, vw_addr_str(&M.bound[u]), off);
		}
		int dnskind = !(L->kind == L_RAWDATA || L->kind == L_RAWPING || L->kind == L_RAWLOGIN);
		if (tunw || other_outputs) viol("spoofed-request-had-effects", "%s from a foreign address caused %d tun writes and %d datagrams to other parties", L->name, tunw, other_outputs);
		if (dnskind && !(n_dns_to_src == 1 && saw_badip == 1)) viol("spoofed-request-not-refused", "%s from a foreign address was answered with %d datagrams, %d of them BADIP", L->name, n_dns_to_src, saw_badip);
		if (!dnskind && n_dns_to_src) viol("spoofed-raw-request-answered", "%s from a foreign address was answered", L->name);
		if (dnskind) xp_count(K_REFUSED, 1);
	} else if (expired && L->src >= 0 && L->kind != L_RAWLOGIN && L->kind != L_RAWDATA && L->kind != L_RAWPING) {
		/* C04 (c): a session silent for more than 60 s is refused */
		xp_count(K_EXPIRED_REFUSED, 1);
		if (!(n_dns_to_src == 1 && saw_badip == 1) || tunw || other_outputs)
			viol("expired-session-not-refused", "%s names slot %d, silent for %ld s, but was answered with %d datagrams (%d BADIP), %d tun writes", L->name, u, t_now - M.hi[u], n_dns_to_src, saw_badip, tunw);
	}
	xp_outcome(oc);
	return 0;
}

/* ---------------------------------------------------------------- state key */
static void key(uint64_t k[2])
{
	uint64_t w[2];
	h128 h;
	vw_hash_world(w, VW_HASH_COARSE_TIME);
	h128_init(&h);
	h128_update(&h, w, sizeof w);
	ss_hash_users(&h, s_w_users(), s_w_created_users());
	h128_update(&h, &M, sizeof M);
	h128_final(&h, k);
	if (getenv("VERIF_DUMPKEYS")) {
		h128 a, b; uint64_t ka[2], kb[2];
		h128_init(&a); ss_hash_users(&a, s_w_users(), s_w_created_users()); h128_final(&a, ka);
		h128_init(&b); h128_update(&b, &M, sizeof M); h128_final(&b, kb);
		uint64_t w1[2]; vw_hash_world(w1, VW_HASH_COARSE_TIME | 4);
		dprintf(1, "M cur %08x %08x alloc %d %d lo %ld %ld rand %u\n", M.cur[0], M.cur[1], M.alloc[0], M.alloc[1], M.lo[0], M.lo[1], W.proc[0].rand_state);
		dprintf(1, "PARTS world %016llx nosec %016llx users %016llx model %016llx\n", (unsigned long long)w[0], (unsigned long long)w1[0], (unsigned long long)ka[0], (unsigned long long)kb[0]);
	}
}
static const char *lname(int l) { return LT[l].name; }

/* ---------------------------------------------------------------- start states */
#define NSTART 9
static const char *START_DESC[2][NSTART] = {
	{ "fresh server, source check on", "fresh server, source check off (-c)", "A logged in on slot 0, source check on", "A and B logged in, source check off (-c)", "A logged in on slot 0, lazy mode with a ping held by the server, source check on", "as before, but A talks from an IPv6 address that shares its first 32 bits with the third party C6", "A logged in (as start state 2) with the server's tunnel address in the middle of the pool (10.0.0.2: sessions get .1 and .3)", "A logged in and switched to raw mode, source check on", "A logged in on slot 0, source check on (as start state 2)" },
	{ "fresh server", "A on slot 0 and B on slot 1 logged in", "A and B logged in, then A silent for 55 s while B pinged", "A logged in and switched to raw mode, B logged in", "A and B logged in, A in lazy mode with a ping held by the server", "as before, but A talks from an IPv6 address that shares its first 32 bits with the third party C6", "A and B logged in, the server's tunnel address in the middle of the pool (10.0.0.2: sessions get .1 and .3)", "A (raw mode) and B logged in, then A silent for 55 s while B pinged",
	  "A and B logged in, two packets for A arrived on the tun (one in flight, one queued), then A silent for 55 s while B pinged" } };

static int find_letter(int kind, int src, int u, int arg)
{
	for (int i = 0; i < nlt; i++) if (LT[i].kind == kind && LT[i].src == src && LT[i].u == u && (arg == -999 || LT[i].arg == arg)) return i;
	vw_fatal("start state needs a letter that is not in the alphabet (%d,%d,%d,%d)", kind, src, u, arg);
}

static void pre(int kind, int src, int u, int arg) { if (apply(find_letter(kind, src, u, arg)) != 0) vw_fatal("start-state letter not enabled"); }

static void boot(int start)
{
	struct w_server_cfg c = { .topdomain = DOM, .password = PW, .my_ip = "10.0.0.1", .netmask = 29, .mtu = 1130, .check_ip = 1, .srand_seed = 1 };
	if (is03 && (start == 1 || start == 3)) c.check_ip = 0;
	/* start state 5: session A lives at an IPv6 address, the spoofer C6 in a neighbouring network of the same /32 */
	if (start == 5) { vw_mkaddr6(&SRC[SRC_A], &SRCLEN[SRC_A], "2001:db8:aaaa:1::10", 4000); vw_mkaddr6(&SRC[SRC_C6], &SRCLEN[SRC_C6], "2001:db8:bbbb:2::66", 4002); }
	else { vw_mkaddr(&SRC[SRC_A], &SRCLEN[SRC_A], "198.51.100.7", 4000); vw_mkaddr6(&SRC[SRC_C6], &SRCLEN[SRC_C6], "2001:db8::99", 4002); }
	vw_init();
	IMG_REGISTER(s);
	W.hooks.on_sanitizer = on_san;
	W.hooks.snap_regions = snap_regions; W.hooks.snap_restored = snap_restored;
	memset(&M, 0, sizeof M);
	M.check_ip = c.check_ip;
	if (start == 6) c.my_ip = "10.0.0.2";
	adv_boot(&c, 1, 0);
	srv_tun_ip = start == 6 ? 0x0A000002u : 0x0A000001u;
	for (int i = 0; i < s_w_created_users() && i < 16; i++) tun_of_slot[i] = ntohl(s_w_users()[i].tun_ip);
	if (!pristine) pristine = malloc(sizeof *pristine * s_w_created_users());
	memcpy(pristine, s_w_users(), sizeof *pristine * s_w_created_users());
	if (is03) {
		if (start >= 2) { pre(L_V, SRC_A, -1, 0); pre(L_LOGIN, SRC_A, 0, HK_CUR); }      /* (start state 8 = 2: the table is shared with C04) */
		if (start == 3) { pre(L_V, SRC_B, -1, 0); pre(L_LOGIN, SRC_B, 1, HK_CUR); }
		if (start == 4 || start == 5) { pre(L_O, SRC_A, 0, 'l'); pre(L_P, SRC_A, 0, 0); }
		if (start == 7) { pre(L_RAWLOGIN, SRC_A, 0, RK_PLUS1); }
	} else {
		if (start >= 1) { pre(L_V, SRC_A, -1, 0); pre(L_LOGIN, SRC_A, 0, HK_CUR); pre(L_V, SRC_B, -1, 0); pre(L_LOGIN, SRC_B, 1, HK_CUR); }
		if (start == 2) { pre(L_TIME, -1, -1, 55); pre(L_P, SRC_B, 1, 0); }
		if (start == 3) { pre(L_RAWLOGIN, SRC_A, 0, RK_PLUS1); }
		if (start == 4 || start == 5) { pre(L_O, SRC_A, 0, 'l'); pre(L_P, SRC_A, 0, 0); }
		if (start == 7) { pre(L_RAWLOGIN, SRC_A, 0, RK_PLUS1); pre(L_TIME, -1, -1, 55); pre(L_P, SRC_B, 1, 0); }
		/* undelivered downstream data of a session that then dies: whoever gets its slot (and tunnel address) next must not be sent it (seeded C04-i) */
		if (start == 8) { pre(L_TUN, -1, 0, 0); pre(L_TUN, -1, 0, 0); pre(L_TIME, -1, -1, 55); pre(L_P, SRC_B, 1, 0); }
	}
}

static eb_ops OPS;
static int use_fork;

/* in-process snapshots: the sessions that are allocated, and the model */
static int snap_regions(vw_region *out, int max, char *note)
{
	struct tun_user *us = s_w_users();
	int n = 0, nu = s_w_created_users();
	unsigned mask = 0;
	for (int i = 0; i < nu && n < max - 1; i++) if (us[i].active) { out[n].p = &us[i]; out[n].n = sizeof us[i]; n++; mask |= 1u << i; }
	out[n].p = &M; out[n].n = sizeof M; n++;
	memcpy(note, &mask, sizeof mask);
	return n;
}
static void snap_restored(const char *note)
{
	/* a slot allocated after the snapshot goes back to what init_users() made of it */
	struct tun_user *us = s_w_users();
	unsigned mask; memcpy(&mask, note, sizeof mask);
	int nu = s_w_created_users();
	for (int i = 0; i < nu; i++) if (us[i].active && !(mask & (1u << i))) memcpy(&us[i], &pristine[i], sizeof us[i]);
}

static void job(int j)
{
	int start = j / nlt, l0 = j % nlt;
	boot(start);
	XC.npath = 0;
	/* the first letter is this job's own transition */
	XC.path[0].cp = 0; XC.path[0].alt = l0; XC.npath = 1; XC.depth = 1;
	if (apply(l0) == 0) {
		uint64_t k[2];
		__atomic_fetch_add(&XS->transitions, 1, __ATOMIC_RELAXED);
		key(k);
		if (xp_visit(k, 1)) { if (use_fork) eb_dfs(&OPS, 1); else eb_dfs_snap(&OPS, 1); }
	}
	__atomic_fetch_add(&XS->execs, 1, __ATOMIC_RELAXED);
}

static void describe_job(int j, char *b, size_t n) { snprintf(b, n, "start state %d (%s), first letter %s", j / nlt, START_DESC[is04][j / nlt], LT[j % nlt].name); }

int main(int argc, char **argv)
{
	hc_args a = hc_parse(argc, argv, "auth");
	int depth = 0;
	for (int i = 0; i < a.nextra; i++) {
		if (!strcmp(a.extra[i], "--prop") && i + 1 < a.nextra) PROP = a.extra[++i];
		else if (!strcmp(a.extra[i], "--depth") && i + 1 < a.nextra) depth = atoi(a.extra[++i]);
		else if (!strcmp(a.extra[i], "--fork")) use_fork = 1;
	}
	is03 = !strcmp(PROP, "C03"); is04 = !strcmp(PROP, "C04"); thorough = a.thorough;
	memset(pw32, 0, sizeof pw32); strcpy((char *)pw32, PW);
	for (uint32_t c = 0x2b5d3f17u; c < 0x7ff00000u; c++) { uint8_t r[16], r1[16]; impl_login(pw32, c, r); if (r[0]) continue; impl_login(pw32, c + 1, r1); if (memchr(r1, 0, 15)) { CH_BASE = c; break; } }
	vw_mkaddr(&SRC[SRC_A], &SRCLEN[SRC_A], "198.51.100.7", 4000);
	vw_mkaddr(&SRC[SRC_B], &SRCLEN[SRC_B], "198.51.100.8", 4001);
	vw_mkaddr6(&SRC[SRC_C6], &SRCLEN[SRC_C6], "2001:db8::99", 4002);
	mk_alphabet();
	victim_copy = malloc(sizeof *victim_copy);
	{ const struct encoder *e[4] = { &s_base32_ops, &s_base64_ops, &s_base64u_ops, &s_base128_ops }; for (int k = 0; k < 4; k++) ref_calibrate(k, e[k]->encode); }
	OPS.nletters = nlt; OPS.apply = apply; OPS.key = key; OPS.name = lname;
	OPS.maxdepth = depth ? depth : thorough ? 5 : 4;
	xp_describe_job = describe_job;
	xp_init(hc_san_as ? hc_san_as : PROP, a.tier, a.thorough ? 1 << 26 : 1 << 24, a.budget_s);
	xp_guard(hc_san_as, &W.cur, 1);
	if (a.replay) {
		int j = xp_load_replay(a.replay);
		boot(j / nlt);
		eb_replay(&OPS, a.verbose);
		return 0;
	}
	hc_quiet();
	xp_run_jobs(NSTART * nlt, job, a.workers);
	if (getenv("AUTH_LETTERS")) { for (int i = 0; i < nlt; i++) printf("%d %s\n", i, LT[i].name); return 0; }
	xp_sample("alphabet of %d letters, e.g. %s | %s | %s | %s | %s", nlt, LT[0].name, LT[3].name, LT[nlt / 2].name, LT[nlt - 4].name, LT[nlt - 1].name);
	for (int s = 0; s < NSTART; s++) xp_sample("start state %d: %s", s, START_DESC[is04][s]);
	char extra[500];
	snprintf(extra, sizeof extra, "\"letters\":%d,\"depth\":%d,\"start_states\":%d,\"letters_applied\":%ld,\"privileged_effects_by_logged_in_sessions\":%ld,\"spoof_checks\":%ld,\"routing_checks\":%ld,\"vacks\":%ld,\"refused_spoofs\":%ld,\"logins_accepted\":%ld,\"tun_writes\":%ld,\"raw_logins_ok\":%ld,\"expired_refused\":%ld,\"sanitizer_notes\":%ld",
		 nlt, OPS.maxdepth, NSTART, XS->counters[K_LETTERS], XS->counters[K_PRIV], XS->counters[K_SPOOF], XS->counters[K_ROUTE], XS->counters[K_VACK], XS->counters[K_REFUSED], XS->counters[K_LOGINS], XS->counters[K_TUNW], XS->counters[K_RAWOK], XS->counters[K_EXPIRED_REFUSED], XS->counters[K_SAN]);
	xp_print_stats(extra);
	return 0;
}
