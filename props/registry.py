"""Per-property registry used by ./check: harness, build flavor, tiers, evidence mapping."""

COMMON_ASSUME = ["linux/glibc build of the repository sources (-DLINUX); BSD/Windows/Android branches not compiled",
                 "gcc 12 -O1 with the sanitizer set named in the build flavor; shift-base excluded (see DESIGN.md 1.1)"]


def cov_c07(st, tier):
    c = st
    return {
        "states": c["cases"], "transitions": c["real_calls"], "traces_validated_against_impl": c["cases"],
        "evaluations": c["cases"], "distinct_nontrivial": c["distinct_outcomes"],
        "rule": "state = one (codec, input, capacity) case of the enumerated families; transition = one call of the real "
                "encode/decode entry point; every case is executed on the real code (no model). non-trivial = the capacity "
                "is smaller than the full encoding (back-off logic exercised); distinct = distinct (codec,len,capacity,consumed,written) "
                "outcome classes among those, counted with a hash set",
        "short_capacity_cases": c["short_capacity_cases"], "chunk_contract_runs": c["chunk_runs"],
        "bounds": {"exhaustive_inputs_up_to_len": 2, "pair_positions": "0..blocksize x 65536 values x 3 backgrounds",
                   "lengths": "0..4096 step %d" % (1 if tier == "thorough" else 7), "chunking": "len 1..72 x cap 0..2n+2 x 3 contents"},
    }


ENGINES = [
    {"name": "E-A netsim", "path": "engine/", "serves_properties": [], "kind_free_text": "real client + real server main loops as coroutines in one process under a virtual clock/network/tun; fork-at-choice-point DFS over per-datagram fates, deviation-bounded"},
    {"name": "E-B adversary", "path": "engine/", "serves_properties": [], "kind_free_text": "depth-bounded explicit-state search over message alphabets against the real server/client loop, exact-state hashing of the whole image"},
    {"name": "E-C enumerators", "path": "props/", "serves_properties": ["C07"], "kind_free_text": "exhaustive enumeration of finite input families through the real pure functions, compared with independent references"},
]

NOT_CLAIMED = {}

PROPS = {
    "C07": {
        "harness": "C07.c", "flavor": "asan", "images": (("s", "server"),), "engine": "E-C enumerators",
        "level_text": "Every case of four finite input families (all inputs up to 2 bytes x all capacities; all adjacent byte pairs at every block position; every length 0..4096; every (length<=72, capacity) pair for the chunking contract) is run through the real encode/decode entry points under ASan/UBSan and compared with an independent bit-stream reference; the enumeration is complete within those bounds, not sampled.",
        "level_note": "Trusted: gcc/ASan/UBSan, the 60-line reference codec, the alphabet classes as written in doc/proto_00000502.txt. Inputs outside the families (e.g. arbitrary 3-byte-apart interactions) are not covered; the codecs are block codes with block size <= 7 bytes so adjacent-pair coverage at every block position reaches every table lookup and carry.",
        "technique": "bounded exhaustive enumeration of inputs through the real code vs reference (explicit-state, no sampling)",
        "tiers": {"quick": {"budget_s": 120}, "thorough": {"budget_s": 900}},
        "coverage": cov_c07,
        "assumptions": COMMON_ASSUME + ["alphabet order is learnt from the encoder (the protocol document gives character classes only) and checked to be a bijection onto the documented class"],
    },
}
