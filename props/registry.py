"""Per-property registry used by ./check: harness, build flavor, tiers, evidence mapping."""

COMMON_ASSUME = ["linux/glibc build of the repository sources (-DLINUX); BSD/Windows/Android branches not compiled",
                 "gcc 12 -O1 with the sanitizer set named in the build flavor; shift-base excluded (see DESIGN.md 1.1)"]


def cov_c07(st, tier):
    c = st
    return {
        "states": c["cases"], "transitions": c["real_calls"], "traces_validated_against_impl": c["cases"],
        "evaluations": c["cases"], "distinct_nontrivial": c["distinct_outcomes"],
        "rule": "state = one (codec, input, capacity) case of the enumerated families; transition = one call of the real "
                "encode/decode entry point; every case is executed on the real code (no model). non-trivial = the capacity "
                "is smaller than the full encoding (back-off logic exercised); distinct = distinct (codec,len,capacity,consumed,written) "
                "outcome classes among those, counted with a hash set",
        "short_capacity_cases": c["short_capacity_cases"], "chunk_contract_runs": c["chunk_runs"],
        "bounds": {"exhaustive_inputs_up_to_len": 2, "pair_positions": "0..blocksize x 65536 values x 3 backgrounds",
                   "lengths": "0..4096 step %d" % (1 if tier == "thorough" else 7), "chunking": "len 1..72 x cap 0..2n+2 x 3 contents"},
    }


ENGINES = [
    {"name": "E-A netsim", "path": "engine/", "serves_properties": ["C01", "C02", "C06", "C10", "C11", "C14", "C15"], "kind_free_text": "real client + real server main loops as coroutines in one process under a virtual clock/network/tun; fork-at-choice-point DFS over per-datagram fates, deviation-bounded"},
    {"name": "E-B adversary", "path": "engine/", "serves_properties": ["C03", "C04", "C05", "C12", "C13", "C14", "C15", "C16", "C20"], "kind_free_text": "depth-bounded explicit-state search over message alphabets against the real server/client loop, exact-state hashing of the whole image"},
    {"name": "E-C enumerators", "path": "props/", "serves_properties": ["C07", "C08", "C09", "C17", "C18", "C19"], "kind_free_text": "exhaustive enumeration of finite input families through the real pure functions, compared with independent references"},
]

NOT_CLAIMED = {}

def cov_c17(st, tier):
    return {
        "states": st["valid_cases"] + st["match_cases"] + st["dispatch_cases"], "transitions": st["valid_cases"] + st["match_cases"] + st["dispatch_cases"],
        "traces_validated_against_impl": st["valid_cases"] + st["match_cases"] + st["dispatch_cases"],
        "evaluations": st["valid_cases"] + st["match_cases"] + st["dispatch_cases"], "distinct_nontrivial": st["distinct_outcomes"],
        "rule": "state = one enumerated (string, wildcard flag) or (query name, domain) input; transition = one call of the real check_topdomain / query_datalen, "
                "or one query datagram handled by the real server loop (dispatch part). non-trivial/distinct = distinct (domain, matched data length) results "
                "and distinct (accept/reject, reason) validation results, counted with a hash set",
        "validation_cases": st["valid_cases"], "validation_accepted": st["accepted"], "matching_cases": st["match_cases"], "matching_positive": st["matches"],
        "dispatch_cases_through_server_loop": st["dispatch_cases"], "dispatch_inside_domain": st["dispatch_tunnel"], "long_name_cases": st["long_cases"],
        "bounds": {"validation_len": "0..7 over {a,A,b,-,.,*,0} + boundary family", "matching_len": "0..%d x 15 domains + long family 250..255" % (8 if tier == "thorough" else 7),
                   "dispatch_len": "1..%d x 15 domains" % (6 if tier == "thorough" else 5)},
    }


def cov_c18(st, tier):
    return {
        "states": st["configs"], "transitions": st["configs"] + st["lookups"], "traces_validated_against_impl": st["configs"],
        "evaluations": st["configs"], "distinct_nontrivial": st["distinct_outcomes"],
        "rule": "state = one (netmask, server host position, base network) configuration; transition = one real init_users() or find_user_by_ip() call. "
                "non-trivial = the server address falls inside the range handed to sessions (skip logic exercised); distinct = distinct (netmask, skip position, pool size) classes",
        "configs_with_server_inside_pool_range": st["skip_cases"], "lookups": st["lookups"],
        "bounds": {"netmasks": "8..30", "positions": "every position for /16../30 (%s), 1..4096 + boundary set for /8../15" % ("3 bases" if tier == "thorough" else "3 bases, 1 base for /16../18"),
                   "lookup_flag_patterns": "256 per deep configuration on slots {0, last}"},
    }


def cov_c19(st, tier):
    return {
        "states": st["cases"], "transitions": st["cases"] + st["dependence_checks"] + st["raw_checks"], "traces_validated_against_impl": st["cases"] + st["raw_checks"],
        "evaluations": st["cases"], "distinct_nontrivial": st["distinct_outcomes"],
        "rule": "state = one (password bytes, challenge) input; transition = one real login_calculate() call (or one real raw-login exchange). distinct = distinct digests produced (first 5 bytes), counted with a hash set",
        "raw_mode_exchanges_checked": st["raw_checks"], "dependence_checks": st["dependence_checks"],
        "handshakes_under_environment_answer_sequences": st.get("env_handshakes", 0),
        "sanitizer_notes_for_C05_C06": st.get("sanitizer_notes_for_C05_C06", 0),
        "bounds": {"password_lengths": "0..40", "challenges": st["challenges"], "note": "all 2^32 challenges are represented by boundary, single-bit, single-zero and byte-lane values"},
    }


def cov_c09(st, tier):
    return {
        "states": st["round_trips"], "transitions": 2 * st["round_trips"], "traces_validated_against_impl": st["round_trips"],
        "evaluations": st["round_trips"], "distinct_nontrivial": st["distinct_outcomes"],
        "rule": "state = one (query type, downstream codec, query-name length, payload length, payload content) case; transition = one real write_dns() call in the server image "
                "and one real read_dns_withq() call in the client image on the captured datagram. distinct = distinct (cell, content, result class, truncation length) outcomes; "
                "non-trivial = all (every case crosses both real code paths)",
        "exact": st["exact"], "proper_prefix": st["prefix"], "nothing": st["nothing"], "answers_also_strictly_parsed": st["answers_wellformed"],
        "bounds": {"types": "NULL PRIVATE TXT SRV MX CNAME A", "codecs": "T S U V R", "name_lengths": "10 and 253 chars",
                   "payload_lengths": "2..4096 every length" if tier == "thorough" else "2..300 every length, every 16th above plus 1020..1030, 2040..2050, 4090..4096",
                   "contents": "ff, 00, probe pattern, counter, xorshift" if tier == "thorough" else "ff, 00, probe pattern",
                   "client_buffer": "64 KB (tunnel path) for all; 4096 (handshake path) for lengths <= 2047"},
    }


def cov_c08(st, tier):
    return {
        "states": st["builds"] + st["builder_messages"], "transitions": 5 * (st["builds"] + st["builder_messages"]),
        "traces_validated_against_impl": st["builds"] + st["builder_messages"],
        "evaluations": st["builds"] + st["builder_messages"], "distinct_nontrivial": st["distinct_outcomes"],
        "rule": "state = one (L, domain, codec, header offset, payload length, content) case or one client message builder invocation; transitions = the real calls chained per case: "
                "build_hostname (or the client's send_* builder up to sendto), dns_encode, dns_decode, query_datalen, unpack_data. non-trivial = the payload does not fit and the builder truncates; "
                "distinct = distinct (codec, header, L, domain length, truncated?, consumed) classes",
        "truncating_cases": st["truncating_builds"], "builder_messages": st["builder_messages"], "grid_cells_L_x_domain": st["grid_cells"],
        "bounds": {"L": "100..255 every value" if tier == "thorough" else "100..102, 127..129, 151..153, 253..255 and every 7th",
                   "domain_lengths": "3..min(128, L-24) every value, two label shapes" if tier == "thorough" else "{3,4,5,31,63,64,65,100,max-1,max}, two label shapes",
                   "payload": "1..capacity+4 every length for content 00, boundary lengths for ff and counter; plus 2048"},
    }


EA_ASSUME = COMMON_ASSUME + [
    "virtual network: per-datagram fates {on time, drop, duplicate, duplicate with fresh DNS id, late by 30 ms / 1.2 s / 5 s}; one-way latency from the cell's latency class",
    "code between two select() calls runs atomically and takes no virtual time (single-threaded programs)",
    "handshake of each cell runs on the clean path before fates are enabled (unless the check says otherwise)"]


def cov_ea(prop, rule, extra_keys):
    def f(st, tier):
        c = {
            "states": st["execs"] + st["states"], "transitions": st["steps"], "traces_validated_against_impl": st["execs"],
            "evaluations": st["execs"], "distinct_nontrivial": st["distinct_outcomes"],
            "rule": "state = end state of one complete execution of the real client+server under one fate assignment (plus, where pruning is on, distinct whole-image states at choice points); "
                    "transition = one scheduler step (a process run between two select() calls, a delivery, a timer); every execution is an implementation run. " + rule,
            "cells_booted": st["cells"], "cells_where_handshake_failed": st["handshake_failed_cells"], "choice_points": st["choicepoints"], "forks": st["forks"],
            "packets_delivered_up": st["delivered_up"], "packets_delivered_down": st["delivered_down"], "repeated_deliveries": st["repeats"], "datagrams_seen": st["datagrams"],
            "sanitizer_notes_for_C05_C06": st.get("sanitizer_notes", 0),
        }
        for k in extra_keys:
            c[k] = st.get(k)
        return c
    return f


def ea_entry(prop, level_text, level_note, rule, extra_keys, quick_s=240, thorough_s=1500, flavor="ubsan"):
    return {
        "harness": "ea.c", "flavor": flavor, "engine": "E-A netsim", "args": ["--prop", prop],
        "tiers": {"quick": {"budget_s": quick_s}, "thorough": {"budget_s": thorough_s}},
        "coverage": cov_ea(prop, rule, extra_keys),
        "level_text": level_text, "level_note": level_note,
        "technique": "stateless model checking of the real client+server in a virtual world: exhaustive per-datagram fate enumeration, deviation-bounded (CHESS-style), fork-at-choice-point",
        "assumptions": EA_ASSUME,
    }


def cov_c10(st, tier):
    ea, aux, wr = st["parts"]["ea"], st["parts"]["aux"], st["parts"]["writer"]
    base = cov_ea("C10", "", ["strictly_parsed", "answers"])(ea, tier)
    base.update({
        "states": ea["execs"] + ea["states"] + aux["aux_queries"] + wr["round_trips"], "transitions": ea["steps"] + aux["transitions"] + wr["round_trips"],
        "traces_validated_against_impl": ea["execs"] + aux["aux_queries"] + wr["round_trips"], "evaluations": ea["execs"] + aux["aux_queries"] + wr["round_trips"],
        "distinct_nontrivial": ea["distinct_outcomes"] + aux["distinct_outcomes"] + wr["distinct_outcomes"],
        "writer_part": {"answers_built_by_write_dns_and_strictly_parsed": wr["answers_wellformed"], "cases": wr["round_trips"], "wall_s": wr.get("wall_s"),
                        "grid": "7 record types x 5 downstream codecs x 2 query-name lengths x payload lengths 2..4096 (every length up to 300, then every 16th and boundary ranges; every length in thorough) x 3-5 contents"},
        "rule": "E-A part: state = end state of one complete execution of real client+server under one fate assignment, transition = one scheduler step; every datagram of every execution is strictly parsed. "
                "Aux part: state = one (tunnel domain, query name, type) case, transition = one query handled by the real server loop plus each message it emits. distinct = distinct delivery outcome classes (E-A) + distinct (type, in-domain, answers, answer length) classes (aux)",
        "ea_part": {"executions": ea["execs"], "cells": ea["cells"], "datagrams_strictly_parsed": ea["strictly_parsed"], "answers_paired": ea["answers"], "wall_s": ea.get("wall_s")},
        "two_client_part": {k: st["parts"].get("two", {}).get(k) for k in ("execs", "cells", "strictly_parsed", "answers", "wall_s")},
        "aux_part": {"queries": aux["aux_queries"], "answers_parsed": aux["aux_answers_parsed"], "ns_answers_checked": aux["ns_answers_checked"], "ns_www_address_answers_checked": aux["a_answers_checked"],
                     "forwarded_copies_parsed": aux["forwarded_copies_parsed"], "queries_left_unanswered": aux["unanswered"], "tunnel_domains": aux["domains"], "wall_s": aux.get("wall_s")},
    })
    return base


def cov_c16(st, tier):
    ea, eb = st["parts"]["ea"], st["parts"]["eb"]
    base = cov_eb("", ["redeliveries", "position_checks", "cache_repeats_expected", "cache_repeats_identical", "queries_sent", "answers_seen"])(eb, tier)
    base.update({
        "states": eb["states"] + ea["execs"], "transitions": eb["transitions"] + ea["steps"],
        "traces_validated_against_impl": eb["transitions"] + ea["execs"], "evaluations": eb["letters_applied"] + ea["execs"],
        "distinct_nontrivial": eb["distinct_outcomes"] + ea["distinct_outcomes"],
        "rule": "E-B part: state = distinct exact state (server image, users[], world, client model) reached by a letter sequence, transition = one letter applied to the real server loop. "
                "E-A part: state = end state of one complete execution of real client+server with one re-delivery injected at one receive point, transition = one scheduler step. Every transition/execution is an implementation run. "
                "distinct = distinct (letter, pending count, outputs, duplicate answers) classes (E-B) + distinct delivery outcome classes (E-A)",
        "ea_part": {"executions": ea["execs"], "cells": ea["cells"], "redeliveries_injected": ea["counters"][10] if "counters" in ea else None, "wall_s": ea.get("wall_s")},
    })
    return base


def cov_c14(st, tier):
    ea, eb, two = st["parts"]["ea"], st["parts"]["eb"], st["parts"].get("two", {"execs": 0, "steps": 0, "distinct_outcomes": 0, "cells": 0, "answers": 0})
    base = cov_ea("C14", "", ["answers", "max_pending"])(ea, tier)
    base.update({
        "states": ea["execs"] + ea["states"] + eb["states"] + two["execs"], "transitions": ea["steps"] + eb["transitions"] + two["steps"],
        "traces_validated_against_impl": ea["execs"] + eb["transitions"] + two["execs"], "evaluations": ea["execs"] + eb["letters_applied"] + two["execs"],
        "distinct_nontrivial": ea["distinct_outcomes"] + eb["distinct_outcomes"] + two["distinct_outcomes"],
        "two_client_part": {"executions": two["execs"], "cells": two["cells"], "answers_paired": two["answers"], "wall_s": two.get("wall_s")},
        "rule": "E-A part: state = end state of one complete execution of real client+server under one fate assignment, transition = one scheduler step. "
                "E-B part: state = distinct exact state (server image, users[], world, client model) reached by a letter sequence, transition = one letter applied to the real server loop. "
                "Every execution/transition is an implementation run. distinct = distinct delivery outcome classes (E-A) + distinct (letter, pending count, outputs, duplicate answers) classes (E-B)",
        "ea_part": {"executions": ea["execs"], "cells": ea["cells"], "answers_paired": ea["answers"], "max_pending_seen": ea["max_pending"], "wall_s": ea.get("wall_s")},
        "eb_part": {"states": eb["states"], "transitions": eb["transitions"], "depth_completed": eb["maxdepth"], "alphabet_size": eb["letters"], "start_states": eb["start_states"],
                    "queries_sent": eb["queries_sent"], "answers_paired": eb["answers_seen"], "redeliveries": eb["redeliveries"], "max_pending_seen": eb["max_pending"],
                    "rest_states_with_two_held": eb["rest_states_with_two_held"], "wall_s": eb.get("wall_s")},
    })
    return base


def cov_c15(st, tier):
    ea, eb = st["parts"]["ea"], st["parts"]["eb"]
    base = cov_ea("C15", "", ["data_fragments"])(ea, tier)
    base.update({
        "states": ea["execs"] + ea["states"] + eb["states"], "transitions": ea["steps"] + eb["transitions"],
        "traces_validated_against_impl": ea["execs"] + eb["transitions"], "evaluations": ea["execs"] + eb["letters_applied"],
        "distinct_nontrivial": ea["distinct_outcomes"] + eb["distinct_outcomes"],
        "rule": "E-A part: state = end state of one complete execution of real client+server under one fate assignment, transition = one scheduler step. "
                "E-B part: state = distinct exact state (server image, users[], world, client model, fragment monitor) reached by a letter sequence, transition = one letter applied to the real server loop. "
                "Every execution/transition is an implementation run. distinct = distinct delivery outcome classes (E-A) + distinct (letter, pending count, outputs) classes (E-B)",
        "ea_part": {"executions": ea["execs"], "cells": ea["cells"], "data_fragments_checked": ea["data_fragments"], "wall_s": ea.get("wall_s")},
        "two_client_part": {k: st["parts"].get("two", {}).get(k) for k in ("execs", "cells", "data_fragments", "wall_s")},
        "eb_part": {"states": eb["states"], "transitions": eb["transitions"], "depth_completed": eb["maxdepth"], "alphabet_size": eb["letters"], "start_states": eb["start_states"],
                    "data_answers_checked": eb["data_answers"], "wall_s": eb.get("wall_s")},
    })
    return base


EB_ASSUME = COMMON_ASSUME + [
    "the peer of the real server loop is the harness: every letter is one datagram / tun packet / time step; the server runs until it blocks in select() again",
    "state key = hash of the server image's data+bss, the canonical content of users[] (engine/srvstate.h), the virtual world and the harness model; "
    "stack bytes of finished calls are not part of the key (correct code does not read uninitialised locals; C12/C14 test that separately)",
    "in-process snapshot/restore of the whole world instead of fork (engine/vw.c vw_snapshot), UBSan build"]


def cov_eb(rule, keys):
    def f(st, tier):
        c = {
            "states": st["states"], "transitions": st["transitions"], "traces_validated_against_impl": st["transitions"],
            "evaluations": st["letters_applied"], "distinct_nontrivial": st["distinct_outcomes"],
            "rule": "state = distinct exact state of (real server image, users[], virtual world, harness model) reached by some letter sequence; transition = one letter applied to the real "
                    "server loop (every transition is an implementation run, no abstract model); search = depth-bounded DFS with exact-state table, re-expanding states reached at a smaller depth. " + rule,
            "depth_completed": st["maxdepth"], "alphabet_size": st["letters"], "start_states": st["start_states"], "table_revisits_pruned": st["revisits"],
        }
        for k in keys:
            c[k] = st.get(k)
        return c
    return f


def eb_entry(harness, prop, level_text, level_note, rule, keys, quick_args, thorough_args, quick_s=120, thorough_s=1200):
    return {
        "harness": harness, "flavor": "ubsan", "images": (("s", "server"),), "engine": "E-B adversary", "args": ["--prop", prop],
        "tiers": {"quick": {"budget_s": quick_s, "args": quick_args}, "thorough": {"budget_s": thorough_s, "args": thorough_args}},
        "coverage": cov_eb(rule, keys), "level_text": level_text, "level_note": level_note,
        "technique": "explicit-state model checking of the real server loop: depth-bounded exhaustive search over a finite message alphabet with exact-state hashing",
        "assumptions": EB_ASSUME,
    }


def cov_c13(st, tier):
    return {
        "states": st["cases"], "transitions": st["cases"] + st["system_calls"], "traces_validated_against_impl": st["cases"],
        "evaluations": st["cases"], "distinct_nontrivial": st["distinct_outcomes"],
        "rule": "state = one (presentation, login reply payload) case; transition = the real write_dns() building the answer, the real client handshake_login() consuming it from the snapshotted "
                "'waiting for the login reply' state, and each system() call it makes. distinct = distinct (presentation, sequence of command classes, client exits/accepts/retries) outcomes",
        "system_calls_checked": st["system_calls"], "ifconfig_address_commands": st["ifconfig_ip_ok"], "ifconfig_mtu_commands": st["ifconfig_mtu_ok"],
        "client_gave_up_errx": st["client_exits"], "client_retried": st["client_retries"], "logins_accepted": st["logins_accepted"], "presentations": st["presentations"],
        "sanitizer_notes_for_C06": st.get("sanitizer_notes_for_C06", 0),
        "bounds": {"fields": "107 client-address strings (3 dotted quads of length 7, 8 and 15 x 28 suffixes, 23 odd forms) x 8 server-address x 12 mtu x 9 netmask strings + 11 structural replies",
                   "product": "full product under all 16 presentations" if tier == "thorough" else "full product under NULL and PRIVATE, field-wise under the other 14 presentations"},
    }


def cov_c12(st, tier):
    return {
        "states": st["shapes"], "transitions": st["deliveries"], "traces_validated_against_impl": st["deliveries"],
        "evaluations": st["deliveries"], "distinct_nontrivial": st["distinct_outcomes"],
        "rule": "state = one (pre-state, datagram shape) pair; transition = one delivery of that datagram to the real server loop / real client loop with one of 7 residues in the receive buffer, "
                "from the same snapshotted pre-state. The outcome (outputs, exit, post-state hash) must be identical across the 7 residues. distinct = distinct (side, number of outputs, output hash) reference outcomes; "
                "non-trivial = the datagram caused a reaction (answer, forward, tun write)",
        "shapes": st["shapes"], "server_shapes": st["server_shapes"], "client_shapes": st["client_shapes"], "shapes_with_a_reaction": st["shapes_with_a_reaction"], "residues": st["residues"],
        "sanitizer_notes_for_C05_C06": st.get("sanitizer_notes_for_C05_C06", 0),
        "bounds": {"residues": "zeros, 0xff, tail of the untruncated original, labels of another session's tunnel request (+1 byte shifted), another client's datagram, compression pointers",
                   "server_pre_states": "no session; two lazy sessions with held pings; session in mid upstream packet (forwarding on)",
                   "client_pre_states": "tunnelling after a real handshake with -T NULL, TXT, CNAME, MX, SRV, A",
                   "shapes": "every truncation of each seed message (%s), compression pointers to offsets len-6..len+2 in three name positions, last label to/past the end, RDLENGTH too small/large, TXT string and target-name labels past the end, 0..12 byte headers" % ("every length" if tier == "thorough" else "every length near both ends, every 2nd/3rd in between")},
    }


def cov_c05(st, tier):
    return {
        "states": st["datagrams"], "transitions": st["transitions"], "traces_validated_against_impl": st["datagrams"],
        "evaluations": st["datagrams"], "distinct_nontrivial": st["distinct_outcomes"],
        "rule": "state = the server after one more hostile datagram / tun frame of the enumerated families (each family runs as one history per session state, so every datagram also meets the leftovers of all earlier ones); "
                "transition = one delivery to the real server loop (plus 8 per health probe). After every delivery: no ASan/UBSan report, server back in select(), wall-clock watchdog; every 128 deliveries a pre-established second session completes a ping, an upstream and a downstream packet. "
                "distinct = distinct (session state, family, answers) classes; non-trivial = the server answered or wrote to its tun",
        "datagrams": st["datagrams"], "tun_frames": st["tun_frames"], "ordered_pairs_of_representatives": st["ordered_pairs"], "health_probes_passed": st["health_probes"],
        "answers_seen": st["answers_seen"], "tun_writes_by_hostile_input": st["tun_writes"], "session_states": 6, "families": st["families"], "sanitizer_reports": st["sanitizer_reports"],
        "bounds": {"families": "truncations and single-byte substitutions {00,01,3f,40,7f,80,bf,c0,ff} at every offset of 10 seed queries; header counts/flags; label lengths; pointer chains 1..12 and targets; 250..262-byte names; "
                               "52 command letters x 12 userid bytes x 10 argument bytes x 12 lengths; commands under 9 record types; hostile N/R/S/O/Y field values; data headers x 6 payload kinds (incl. inflating to 65535/66000 bytes, invalid zlib); "
                               "raw frames of all lengths 0..40/4096/4097/65507 x 16 x 16 nibbles; tun frames 0..64/1130/1500/4096/65535 bytes x 6 destinations; 48x48 ordered pairs",
                   "reduced_in_quick": "argument bytes >= 0x80 and raw frame lengths are thinned to a third/quarter"},
    }


def cov_c06(st, tier):
    return {
        "states": st["execs"], "transitions": st["transitions"], "traces_validated_against_impl": st["execs"],
        "evaluations": st["substitutions"], "distinct_nontrivial": st["distinct_outcomes"],
        "rule": "state = end state of one complete execution (real handshake + tunnelling of the real client against the real server) in which exactly one answer was replaced by one hostile menu item; "
                "transition = one substitution or one honestly delivered answer. The honest run reaches each answer once; at each answer one child per menu item is forked (deviation bound 1 over all answers of the run). "
                "distinct = distinct (cell, handshake result, client end state, exit code, tun writes) classes",
        "cells": st["cells"], "answers_in_honest_runs": st["answers_in_honest_runs"], "substitutions": st["substitutions"], "unmatched_reply_checks": st["unmatched_reply_checks"],
        "runs_where_handshake_completed": st["handshakes_completed"], "runs_where_handshake_failed": st["handshakes_failed"], "runs_where_client_exited": st["client_exits"], "sanitizer_reports": st["sanitizer_reports"],
        "bounds": {"deviations": 1, "menu": "truncations; header counts, RCODEs, QR/TC, ids; RDLENGTH and type variants; pointer loops / forward pointers in owner, question and target names; TXT chunkings and every prefix byte; "
                                            "hostname prefix bytes, over-long labels, preferences, 250/251/260-record MX/SRV sets; genuine answers (server's real writer) with every step-specific payload, lengths 3..8000, "
                                            "data headers x bodies (valid, invalid zlib, inflating to 66000 bytes); raw frames of all lengths/nibbles in raw mode",
                   "cells": "autodetect/NULL, TXT/base128, MX/base32, raw mode" + (" + CNAME, SRV, A, PRIVATE, TXT/raw, TXT/base64u, NULL -m 1200 (lazy and immediate)" if tier == "thorough" else "")},
    }


PROPS = {
    "C06": {
        "harness": "C06.c", "flavor": "asan", "engine": "E-A netsim",
        "tiers": {"quick": {"budget_s": 600}, "thorough": {"budget_s": 2400}},
        "coverage": cov_c06,
        "level_text": "The real client (ASan+UBSan build) runs its real handshake and tunnel loop against the real server. At every answer on its way to the client the explorer forks one child per item of a hostile menu derived from that honest answer (400-1000 items: truncations, header/count/RCODE/id changes, RDLENGTH and type changes, pointer loops, TXT chunkings and all 256 codec prefix bytes, hostname label and preference abuse, 250+ record sets, genuine answers built by the server's real writer carrying every step-specific payload, oversized bodies and every data-header combination, raw frames); the child delivers the item instead and the run continues honestly, so every later handshake step and the tunnel phase still execute. No sanitizer report, no crash, no wall-clock overrun in any execution; an answer whose DNS id matches none of the client's three latest queries must cause no tun write and leave the client's reassembly state unchanged; and ('ignored means ignored') at every answer ten further children first deliver an unmatched answer carrying a long payload of a chosen filler ('9', 'A', 0xff, '-', zeros, ...) and then the honest answer: the run must end in exactly the final state (handshake result, negotiated settings, commands run, packets delivered) of the honest run.",
        "level_note": "One substitution per execution (deviation bound 1); sequences of two hostile answers are not explored. Menu families, not all byte strings. The documented give-up paths (errx(4) on failed IP/MTU set-up, handshake failure) are allowed outcomes.",
        "technique": "stateless model checking of the real client+server in a virtual world: at every answer, exhaustive substitution from a hostile menu (deviation bound 1, fork-at-choice-point), sanitizer oracle",
        "assumptions": EA_ASSUME,
    },
    "C05": {
        "harness": "C05.c", "flavor": "asan", "images": (("s", "server"),), "engine": "E-B adversary",
        "tiers": {"quick": {"budget_s": 120}, "thorough": {"budget_s": 900}},
        "coverage": cov_c05,
        "level_text": "Complete finite families of hostile input (malformed DNS at the message, header, label and pointer level; every tunnel command letter with hostile userid/argument bytes and lengths under every record type; data headers with every seq/frag/ack combination and payloads that are empty, invalid zlib or inflate beyond 64 KB; raw frames of every length and nibble; tun frames of every length) are delivered to the real server loop (ASan+UBSan build, IPv4+IPv6 sockets, forwarding on) in six session states, singly within one history per family and in all ordered pairs of 48 class representatives. Oracle: no sanitizer report, no exit, return to select() within a wall-clock bound, and a second pre-established session keeps completing ping / upstream / downstream transfers.",
        "level_note": "Sanitizers see accesses outside C objects only (C12 covers stale-buffer reads inside the 64 KB buffers). Families, not all byte strings. shift-base is excluded from UBSan (DESIGN.md 1.1).",
        "technique": "exhaustive enumeration of hostile-input families against the real server loop under ASan/UBSan in every session state (histories of thousands of datagrams, ordered pairs), sanitizer + liveness oracle",
        "assumptions": COMMON_ASSUME,
    },
    "C12": {
        "harness": "C12.c", "flavor": "ubsan", "engine": "E-B adversary",
        "tiers": {"quick": {"budget_s": 120}, "thorough": {"budget_s": 600}},
        "coverage": cov_c12,
        "level_text": "Differential, exhaustive over (pre-state x datagram shape x residue): the virtual recvfrom/recvmsg writes a chosen residue into the caller's 64 KB buffer beyond the datagram; from one snapshotted pre-state the same datagram is delivered once per residue to the real server loop (three pre-states, forwarding on) and to the real client loop (six record types, after a real handshake against the real server). Everything observable - each emitted datagram with destination, each tun write, process exit, and the hash of the image's static state and of users[] afterwards - must not depend on the residue.",
        "level_note": "Struct padding that the code copies from its stack but never reads (the forwarding ring entries) is hashed field by field, not raw. Shapes are complete families around seed messages, not all byte strings. The receive buffer itself is not part of the compared state.",
        "technique": "exhaustive differential exploration of the real receive paths from snapshotted protocol states: same datagram, enumerated buffer residues, outcome equality as oracle",
        "assumptions": COMMON_ASSUME + ["the virtual receive calls fill the buffer beyond the returned length with the chosen residue (the kernel would leave earlier contents there)"],
    },
    "C13": {
        "harness": "C13.c", "flavor": "ubsan", "engine": "E-B adversary",
        "tiers": {"quick": {"budget_s": 120}, "thorough": {"budget_s": 600}},
        "coverage": cov_c13,
        "level_text": "The real client runs its real handshake_login() (and through it the real tun_setip()/tun_setmtu()) as a coroutine; the state 'login query sent, waiting for the reply' is snapshotted and, for every login reply in the product of hostile field alphabets (dotted quads followed by each ASCII whitespace and shell metacharacters, leading whitespace, short/hex/octal/over-range forms, 64/65+ character fields, high bytes; mtu and netmask strings with signs, overflow and trailing text; 3- and 5-part and NUL-containing replies) under each of 16 downstream presentations (NULL, PRIVATE, TXT t/s/u/v/r, CNAME h/i/j/k, MX, SRV, A), the reply is built by the server image's real write_dns() and handed to the client. Every system() argument must match the grammar 'PATH=/sbin:/bin ifconfig dns0 <dotted quad> <dotted quad> netmask <dotted quad>' or '... mtu <201..1500>' exactly.",
        "level_note": "Linux branch of tun.c only (the BSD route command and the Windows netsh command are not compiled). The grammar checker is self-tested at start. Enumeration of the alphabet product is complete; strings outside the alphabets are not covered.",
        "technique": "exhaustive enumeration of a hostile-reply alphabet product against the real client code from a snapshotted protocol state, strict output grammar as oracle",
        "assumptions": COMMON_ASSUME + ["system() is virtual: it records its argument and returns 0"],
    },
    "C20": {
        "harness": "fwd.c", "flavor": "ubsan", "images": (("s", "server"),), "engine": "E-B adversary",
        "tiers": {"quick": {"budget_s": 120, "args": ["--depth", "5"]}, "thorough": {"budget_s": 1200, "args": ["--depth", "6"]}},
        "coverage": cov_eb("A reference list of forwarded (requester, id) pairs decides where a reply may go. distinct = distinct (letter kind, candidates, deliveries) classes",
                           ["queries_forwarded_ok", "replies_routed_ok", "replies_dropped_ok", "replies_with_ambiguous_id", "tunnel_queries"]),
        "level_text": "The real server loop runs with forwarding enabled (-b). Every sequence up to the depth bound of {query for a name outside the tunnel domain from requester A/B/C with DNS id 0..3 (two names/types), reply on the local-DNS socket with id 0..4 / 100 / 115, tunnel-domain query} is applied from six start states (ring empty, pre-filled with 14/15/16/17/31 distinct-id queries from a fourth requester, i.e. just before and after index wrap-around). Each query must produce exactly one datagram to 127.0.0.1:<port> with the same id, name and type and nothing else; each reply goes unchanged to the requester of the matching entry among the 16 most recent forwarded queries (to one of them if ids repeat, outside the property) and to nobody if there is none.",
        "level_note": "IPv4 requesters only. A reply with id 0 on a ring with unused entries makes the server call sendto() without an address (fails in the kernel, reaches nobody); the harness ignores that output.",
        "technique": "explicit-state model checking of the real server loop: depth-bounded exhaustive search over a finite message alphabet with exact-state hashing, reference model of the 16-entry ring",
        "assumptions": EB_ASSUME,
    },
    "C03": eb_entry("auth.c", "C03",
        "Every sequence of up to N letters (N = depth bound) from an 82-letter alphabet - version/login with correct, replayed, other-slot, off-by-one, wrong and short responses, every privileged command, raw login/data/ping, tun arrivals, +30 s/+61 s - from two source addresses and userids 0,1,5,128 is applied to the real server loop from eight start states (source check on/off, fresh/established, lazy mode with a held ping, IPv6 neighbours, server address in the middle of the pool, raw mode); after every letter every tun write, every positive answer (login accept, address, codec/option/fragment-size acknowledgement, probe data, tunnel payload, raw login/ping reply) and every change of a session's settings must be attributable to a slot for which the response to its current challenge was sent since its last VACK.",
        "One-directional oracle (never demands that a login be accepted). The model learns challenges from VACK answers like a client. Answers are attributed by the question they echo. Password and challenge values are fixed (C19 covers the formula for all inputs).",
        "non-trivial/distinct = distinct (letter kind, argument, reply class sequence) outcomes observed", 
        ["privileged_effects_by_logged_in_sessions", "logins_accepted", "tun_writes", "raw_logins_ok", "vacks"],
        ["--depth", "4"], ["--depth", "5"]),
    "C04": eb_entry("auth.c", "C04",
        "Same search with a 70-letter alphabet that adds an IPv6 spoofer, tun packets for the server / an unassigned / an outside address and +5/+55/+61 s, from eight start states (fresh; two logged-in sessions; one of them silent for 55 s; one in raw mode; one in lazy mode with a held ping; IPv6 neighbours; server address in the middle of the pool; one in raw mode and silent for 55 s while the other pinged). (a) a request naming a slot from an address it is not bound to must be answered BADIP (raw: not at all), cause no other output, and leave the whole users[] record of that slot bit-identical; (b) every datagram caused by a tun packet for address X goes to the address bound to the live logged-in owner of X, nothing is emitted otherwise; (c) VACK never names a slot active within 60 s, a slot silent > 60 s is refused and a free slot is handed out.",
        "'Active' is taken in the narrow sense of the code (messages that refresh the 60-second timer); the model keeps a certain and a possible last-activity time so that exact repeats served from the answer cache (which do not refresh the timer) never cause an alarm. Source check on (default).",
        "non-trivial/distinct = distinct (letter kind, argument, reply class sequence) outcomes observed",
        ["spoof_checks", "refused_spoofs", "routing_checks", "vacks", "expired_refused"],
        ["--depth", "4"], ["--depth", "5"]),
    "C16": {
        "engine": "E-B adversary + E-A netsim",
        "parts": [
            {"name": "eb", "harness": "lazy.c", "flavor": "ubsan", "images": (("s", "server"),), "args": ["--prop", "C16"],
             "tier_args": {"quick": ["--depth", "5"], "thorough": ["--depth", "6"]}},
            {"name": "ea", "harness": "ea.c", "flavor": "ubsan", "images": (("s", "server"), ("ca", "client")), "args": ["--prop", "C16"]},
        ],
        "tiers": {"quick": {"budget_s": 480}, "thorough": {"budget_s": 2400}},
        "coverage": cov_c16,
        "level_text": "(1) E-B: for one established session and each record type (lazy and immediate), every sequence up to the depth bound of {new ping, new data fragment (first/last), tun packets, +20 ms/+1 s, raw login, lazy on/off} interleaved with re-deliveries of the 1st/2nd/3rd/5th most recent ping or data query - unchanged, with a fresh DNS id, from a second relay port, upper-cased - and, from warmed-up start states (both 3-bit sequence numbers about to wrap, 24+ pings remembered), of every one of the 30 most recent queries, is applied to the real server loop. At every re-delivery the session's upstream reassembly position and bytes and its downstream position/queue (read from the real users[] record) must be identical before and after, and when the original is among the last four distinct queries answered on the data path and the repeat is byte-identical in name and type, the repeat must get exactly one answer carrying the original's payload (decoded by the reference decoders). (2) E-A: real client and server with multi-fragment packets both ways; at every query the server receives, each of the last eight received queries is re-delivered (unchanged / fresh id / upper-cased / fresh id from a second relay port), one re-delivery per execution: position invariance at the re-delivery, no fabricated packet, and every packet accepted later than one second after it still arrives, in order.",
        "level_note": "The answer-cache model (last four distinct answered ping/data queries) lives in the harness. The E-A part does not demand exactly-once delivery of the packet in flight: a relay drops the second answer to a query it already answered, and C01 allows loss and repeats (first version of that oracle was a false alarm, see DESIGN.md 5.3).",
        "technique": "explicit-state depth-bounded search over a client-message alphabet against the real server loop, plus stateless exploration of real client+server with one re-delivery at every receive point (deviation bound 1)",
        "assumptions": EB_ASSUME + EA_ASSUME[2:],
    },
    "C07": {
        "harness": "C07.c", "flavor": "asan", "images": (("s", "server"),), "engine": "E-C enumerators",
        "level_text": "Every case of four finite input families (all inputs up to 2 bytes x all capacities; all adjacent byte pairs at every block position; every length 0..4096; every (length<=72, capacity) pair for the chunking contract) is run through the real encode/decode entry points under ASan/UBSan and compared with an independent bit-stream reference; the enumeration is complete within those bounds, not sampled.",
        "level_note": "Trusted: gcc/ASan/UBSan, the 60-line reference codec, the alphabet classes as written in doc/proto_00000502.txt. Inputs outside the families (e.g. arbitrary 3-byte-apart interactions) are not covered; the codecs are block codes with block size <= 7 bytes so adjacent-pair coverage at every block position reaches every table lookup and carry.",
        "technique": "bounded exhaustive enumeration of inputs through the real code vs reference (explicit-state, no sampling)",
        "tiers": {"quick": {"budget_s": 120}, "thorough": {"budget_s": 900}},
        "coverage": cov_c07,
        "assumptions": COMMON_ASSUME + ["alphabet order is learnt from the encoder (the protocol document gives character classes only) and checked to be a bijection onto the documented class"],
    },
    "C17": {
        "harness": "C17.c", "flavor": "ubsan", "images": (("s", "server"),), "engine": "E-C enumerators",
        "tiers": {"quick": {"budget_s": 120}, "thorough": {"budget_s": 900}},
        "coverage": cov_c17,
        "level_text": "All strings up to length 7 (validation) / 7-8 (matching, x15 plain and wildcard domains) over {a,A,b,-,.,*,0}, plus length-boundary and long-name families, are run through the real check_topdomain/query_datalen and compared with a reference written from the property text; every name up to length 5-6 is also sent through the real server loop to observe tunnel handling vs forwarding. Complete enumeration within the bounds.",
        "level_note": "Trusted: the 40-line reference validator/matcher. Where the statement is ambiguous ('*.x' has two labels only if the wildcard counts) the reference does not decide. Names longer than 8 outside the long-name family are not covered.",
        "technique": "bounded exhaustive enumeration of inputs through the real functions and the real server dispatch vs reference",
        "assumptions": COMMON_ASSUME,
    },
    "C18": {
        "harness": "C18.c", "flavor": "ubsan", "images": (("s", "server"),), "engine": "E-C enumerators",
        "tiers": {"quick": {"budget_s": 120}, "thorough": {"budget_s": 600}},
        "coverage": cov_c18,
        "level_text": "Every (netmask /16../30, server host position) configuration and boundary positions for /8../15, under up to three base networks, is run through the real init_users(); pool size, distinctness, subnet membership and exclusion of server/network/broadcast are checked, and find_user_by_ip() is checked for all 256 liveness flag patterns on two slots against every pool/server/network/broadcast address.",
        "level_note": "Trusted: reference arithmetic in the harness. The 8..30 range test in main() is not executed (main needs real sockets); only init_users/find_user_by_ip are.",
        "technique": "exhaustive enumeration of configurations through the real functions vs reference",
        "assumptions": COMMON_ASSUME,
    },
    "C19": {
        "harness": "C19.c", "flavor": "asan", "engine": "E-C enumerators",
        "tiers": {"quick": {"budget_s": 120}, "thorough": {"budget_s": 300}},
        "coverage": cov_c19,
        "level_text": "Full product of a password family (lengths 0..40, four fills, every position set to 01/7f/80/ff) and a challenge family (boundary, all single-bit, single-zero, byte-lane values) through the real login_calculate() against an independent RFC 1321 MD5 over the documented formula; dependence on each of the first 32 bytes and each challenge bit; raw-mode +1/-1 observed on the wire from the real server loop and the real client handshake for wrap-around challenges; the real client handshake is re-run under every sequence of 0..4 non-answers (silence, late duplicate DNS answer, raw frame with a wrong digest, runt, raw ping) at the raw-login waits and 0..3 at the DNS-login waits, and every (re)transmitted login must carry the documented digest and the documented reply must still be accepted.",
        "level_note": "Trusted: the reference MD5 (self-tested on an RFC 1321 vector). 2^32 challenges are covered by boundary/bit-lane values, not one by one.",
        "technique": "exhaustive enumeration of an input product through the real function vs independent reference; protocol exchange replayed against the real loops",
        "assumptions": COMMON_ASSUME,
    },
    "C09": {
        "harness": "C09.c", "flavor": "asan", "engine": "E-C enumerators",
        "tiers": {"quick": {"budget_s": 120}, "thorough": {"budget_s": 900}},
        "coverage": cov_c09,
        "level_text": "For every cell of {7 record types} x {5 downstream codecs} x {short, maximal query name}, every payload length in the tier's range and 3-5 contents, the server image's real write_dns() builds the answer and the client image's real read_dns_withq() decodes it; the result must be the payload, a proper prefix or nothing, and exactness must be monotone in the length. Complete enumeration of the stated grid.",
        "level_note": "Trusted: the harness comparison only (no model). Contents are five families, not all byte strings; the 4096-byte handshake buffer is paired only with the <= 2047-byte payloads the server can send during the handshake.",
        "technique": "exhaustive enumeration of a finite grid through the two real code paths (cross-image round trip)",
        "assumptions": COMMON_ASSUME,
    },
    "C08": {
        "harness": "C08.c", "flavor": "asan", "engine": "E-C enumerators",
        "tiers": {"quick": {"budget_s": 120}, "thorough": {"budget_s": 1200}},
        "coverage": cov_c08,
        "level_text": "Exhaustive over the (L, domain length, codec, header offset) grid with every payload length up to just beyond capacity: the real build_hostname() output is checked by an independent strict name checker, and the reported byte count is compared with what the server-side path (real dns_encode -> dns_decode -> query_datalen -> unpack_data) extracts. The client's six real message builders are driven with hostname_maxlen = L and their datagrams, captured at sendto, go through the same checks.",
        "level_note": "Trusted: the strict name checker and RFC 1035 parser in ref/. Payload contents are three families (00, ff, counter). Handshake messages may be truncated by a small L (the property allows a prefix); the check only requires a non-empty, unchanged prefix.",
        "technique": "exhaustive enumeration of a configuration x input grid through the real builder and the real extraction path",
        "assumptions": COMMON_ASSUME,
    },
    "C01": ea_entry("C01",
        "Every cell of the configuration grid (7 record types x downstream codec x 4 relay classes selecting the upstream codec x fragment size x -M x lazy/immediate) runs the real handshake and a mixed workload on the clean path (0 deviations); a pairwise-covering subset of cells runs under every single fate deviation at every datagram (1 deviation; thorough: all cells at 1, subset at 2). Every tun write on either side is compared byte-for-byte with the packets read from the peers' tuns.",
        "Trusted: the virtual world (engine/vw.c, netsim.h) and the comparison. Payloads are fixed unique pseudo-random/compressible packets, not all contents; zlib's Adler-32 is what rejects mis-spliced fragments; a colliding splice is constructed only in the stale-duplicate sub-check. Fault histories with more deviations than the bound are not covered.",
        "non-trivial = at least one packet crossed the tunnel; distinct = distinct (set and order of delivered tags per side, repeats, client alive) outcome classes", []),
    "C02": ea_entry("C02",
        "Clean path: every cell of the grid (excluding forced fragment sizes the record type cannot carry) x latency classes runs four packets per direction, offered back-to-back and spaced; the sequence of tun writes on each side must equal the sequence of packets the peer accepted (exactly once, in order), for every packet that fits in 16 fragments. Recovery: in every cell of the pairwise-covering subset a 120-byte packet is offered on each tun every second for 105 virtual seconds; each of 65 fault windows - outages (all queries / all answers / all datagrams dropped for 3..35 s at several offsets, including offsets every few milliseconds across a multi-fragment packet in either direction) and windows in which every datagram is delivered twice, repeated with a fresh DNS id, delayed by 5 s, or alternately delayed by 1.2 s (reordering), for 8 or 25 s - is followed by a clean path; neither program may have ended, and every packet offered from 45 s after the outage on must arrive exactly once, in order, within 10 s.",
        "Recovery is decided as bounded response on finite runs (B = 45 s, latency bound 10 s, horizon 105 s; genuine 'eventually' is not what a bounded explorer decides). A cell that cannot carry the offered load without any outage is reported as not judged instead of raising an alarm. 'accepted' is evaluated from read-only accessors at the moment the program reads its tun.",
        "distinct = distinct delivery outcome classes (clean-path runs) and distinct (outage, deliveries) classes (recovery runs)", ["recovery_runs", "recovery_probes_checked", "recovery_cells_not_judged"]),
    "C11": ea_entry("C11",
        "The relay is the enumerated dimension (each relay is deterministic, the path is otherwise clean): every member of the family {query names: case keep/lower/upper/pseudo-random x 8-bit clean/strip/refuse x punctuation keep/'+'->'-'/'_'->'-'} x {the same 36 transformations for names and TXT text in answers} x {allowed record types} x {answer size limit none/4096/1232/512} x {EDNS0 honoured/ignored}, with fresh DNS ids per forwarded query. Quick: the 36 'same both ways' relays x 14 prefix/suffix type sets x {none, 512}, plus forced -T/-O through every fifth of them; thorough: all 36x36 combinations x 7 single types x 6 limit/EDNS0 settings, the diagonal x all 127 type sets, and every forced (type, downstream codec) through all diagonal relays. The real client runs its real autodetecting (or forced) handshake against the real server through the relay; if it returns 0, large packets offered on both sides at the same time, then small, then large ones, then packets cut to the fragment boundaries of the settings just negotiated (compressed length k x capacity - 1, +0, +1, +2 for k = 1, 2, each direction) must all arrive intact, once, in order through the same relay; the client's userid is a dimension too (9, 10, 15 behind other parties' version requests; thorough 1..15); and the autodetecting handshake must succeed on every relay (all of them pass Base32 both ways and answers up to 512 bytes for at least one type).",
        "'Pseudo-random case' is one fixed per-position hash pattern, a finite stand-in. Known findings (not repaired, see known_findings.json): codecs whose corruption the 48-byte check pattern and the size probe cannot see ('+' in Raw TXT; forced raw/base64/base64u over text-rewriting paths).",
        "distinct = distinct (negotiated query type, downstream codec, upstream codec, fragment-size class, delivery outcome) classes", ["boundary_sweep_packets"]),
    "C10": {
        "engine": "E-A netsim + E-B adversary",
        "parts": [
            {"name": "ea", "harness": "ea.c", "flavor": "ubsan", "images": (("s", "server"), ("ca", "client")), "args": ["--prop", "C10"]},
            {"name": "aux", "harness": "C10aux.c", "flavor": "ubsan", "images": (("s", "server"),), "args": []},
            {"name": "writer", "harness": "C09.c", "flavor": "asan", "images": (("s", "server"), ("ca", "client")), "args": ["--prop", "C10"]},
        ],
        "tiers": {"quick": {"budget_s": 480}, "thorough": {"budget_s": 2400}},
        "coverage": cov_c10,
        "level_text": "(1) Every datagram emitted by the real client and the real server in every execution of the E-A exploration (clean path on all cells, every single fate deviation on the pairwise subset) is parsed by an independent strict RFC 1035 parser; every server answer must pair with a received, not yet answered query with the same requester, id, question name (byte-exact) and type. (2) Auxiliary answers: under five tunnel domains (plain, upper-case, wildcard, minimal, maximal 128 characters) the real server loop is asked NS / A / tunnel-type / AAAA queries for every name built from up to three labels of length <= 2 over {a,A,0,-,0xe9,z,n,w}, ns./www. in every letter case and near misses, first labels of every length 1..63 (three fills, four first characters, with and without a second 63-byte label), names of 240..256 bytes on the wire in three label shapes, and names outside the domain (forwarded copy parsed too). Every answer must parse strictly, echo id/name/type; NS answers must name ns.<domain as asked>, ns./www. A answers must carry a 4-byte address. (3) Writer: every answer the server's real write_dns() builds over the C09 grid (7 types x 5 codecs x 2 name lengths x payload lengths 2..4096 x contents) is strictly parsed.",
        "level_note": "Trusted: ref/refdns.c. Queries whose labels contain '.' or NUL are outside the property and outside the alphabets. Client queries for all (L, domain, codec) combinations are strictly parsed by the C08 check.",
        "technique": "stateless model checking (fate enumeration, deviation-bounded) of real client+server with a strict-parser monitor, plus exhaustive enumeration of query-name families against the real server loop",
        "assumptions": EA_ASSUME,
    },
    "C14": {
        "engine": "E-A netsim + E-B adversary",
        "parts": [
            {"name": "ea", "harness": "ea.c", "flavor": "ubsan", "images": (("s", "server"), ("ca", "client")), "args": ["--prop", "C14"]},
            {"name": "eb", "harness": "lazy.c", "flavor": "ubsan", "images": (("s", "server"),), "args": ["--prop", "C14"],
             "tier_args": {"quick": ["--depth", "5"], "thorough": ["--depth", "6"]}},
        ],
        "tiers": {"quick": {"budget_s": 360}, "thorough": {"budget_s": 2400}},
        "coverage": cov_c14,
        "level_text": "Two exhaustive explorations feed the same wire-level monitor (multiset of received-and-unanswered queries per (requester, id, question, type); an answer that matches none is a violation; at most two distinct unanswered tunnel queries per lazy DNS session whenever the server is idle). (1) E-A: the real client against the real server over the configuration grid with every single fate deviation. (2) E-B: the harness as client of one established session, every sequence up to the depth bound of {new ping, new data fragment (first/last), re-delivery of the 1st/2nd/3rd/5th most recent query unchanged / with a fresh id / from a second relay port / upper-cased, tun packet of 1 and 3 fragments, +20 ms, +1 s, raw login, lazy on/off}, for each record type in lazy and immediate mode.",
        "level_note": "Queries with DNS id 0 are ignored by design and excluded. The pending multiset is observed on the wire, not read from the server's variables; after a raw login the session is no longer a lazy DNS session and the two-held bound is not evaluated (the unsolicited-answer rule still is).",
        "technique": "stateless model checking (fate enumeration, deviation-bounded) of real client+server, plus explicit-state depth-bounded search over a client-message alphabet against the real server loop",
        "assumptions": EA_ASSUME + EB_ASSUME[2:],
    },
    "C15": {
        "engine": "E-A netsim + E-B adversary",
        "parts": [
            {"name": "ea", "harness": "ea.c", "flavor": "ubsan", "images": (("s", "server"), ("ca", "client")), "args": ["--prop", "C15"]},
            {"name": "eb", "harness": "lazy.c", "flavor": "ubsan", "images": (("s", "server"),), "args": ["--prop", "C15"],
             "tier_args": {"quick": ["--depth", "5"], "thorough": ["--depth", "6"]}},
        ],
        "tiers": {"quick": {"budget_s": 360}, "thorough": {"budget_s": 2400}},
        "coverage": cov_c15,
        "level_text": "Every server answer that carries tunnel data is decoded by reference decoders for the five presentations (independent of the client) and checked against the fragment size the session negotiated on the wire ('n' request acknowledged by the server; 100 before): payload length, consecutive fragment numbers per downstream packet, last flag only on the fragment that completes a compressed packet, sizes below 2 rejected. (1) E-A: real client and server over the configuration grid under every single fate deviation. (2) E-B: the harness as client of one established session per record type, every sequence up to the depth bound of {acking ping, ping with a stale ack, upstream packet, tun packet of 1 or 3+ fragments, N(200/100/50/3/2/1/0) at any point of a transfer, re-delivery of the newest query with a fresh id, +1 s, and 'the session goes silent for 61 s and a new session (version, login, lazy switch, no size request) takes over its slot', after which the limit in force is the default 100 again}.",
        "level_note": "F is taken from the wire, not from the server's variable. A resend after a size change is cut at the new size by the server; the property bounds its size but does not promise identical resends, so the monitor follows the server's latest cut. Sizes above what one CNAME/A answer can carry (about 140 bytes) are a user misconfiguration and are not requested for those types. All F in 2..65535 are represented by {2,3,50,100,200} plus the forced sizes of the E-A grid.",
        "technique": "stateless model checking (fate enumeration, deviation-bounded) of real client+server, plus explicit-state depth-bounded search over a client-message alphabet against the real server loop",
        "assumptions": EA_ASSUME + EB_ASSUME[2:],
    },
}

# two real clients behind one server (props/ea2.c): client-to-client forwarding
_TWO = {"name": "two", "harness": "ea2.c", "flavor": "ubsan", "images": (("s", "server"), ("ca", "client"), ("cb", "client"))}
PROPS["C01"]["parts"] = [
    {"name": "ea", "harness": "ea.c", "flavor": "ubsan", "images": (("s", "server"), ("ca", "client")), "args": ["--prop", "C01"]},
    dict(_TWO, args=["--prop", "C01"]),
]
PROPS["C01"]["tiers"] = {"quick": {"budget_s": 480}, "thorough": {"budget_s": 2400}}
PROPS["C01"]["level_text"] += " A second part runs two real clients behind the server (20 cells: NULL/TXT/MX/CNAME/PRIVATE x lazy/immediate x fragment size) with packets from client to client, client to server, server to client and to an unassigned address, on the clean path and under every single fate deviation (thorough: two deviations)."
PROPS["C14"]["parts"].append(dict(_TWO, args=["--prop", "C14"]))
PROPS["C14"]["level_text"] += " (3) The same wire monitor on the two-client exploration (client-to-client packets are sent on the other session's held query)."
PROPS["C10"]["parts"].append(dict(_TWO, args=["--prop", "C10"]))
PROPS["C10"]["level_text"] += " The strict parser also monitors every datagram of the two-client exploration (props/ea2.c)."
PROPS["C15"]["parts"].append(dict(_TWO, args=["--prop", "C15"]))
PROPS["C15"]["level_text"] += " (3) The same monitor, per session, on the two-client exploration (client-to-client packets are re-cut by the server at the receiving session's size)."
PROPS["C10"]["level_text"] += " The auxiliary part asks every query three ways: from an IPv4 address, from an IPv6 address on the IPv6 listening socket, and from IPv6 with an external address configured (-n)."
PROPS["C15"]["level_text"] += " E-B also starts from three warmed-up sessions (N(200), a 1000-byte packet in flight, four fragments fetched and acknowledged, so that the four-entry answer cache is full and has wrapped), where the 1st..5th most recent queries can be re-delivered with a fresh id."
PROPS["C16"]["level_text"] += " Data queries can be delivered upper-cased the first time (a 0x20-style relay) and re-delivered in either case; the warm-ups alternate the two."
PROPS["C06"]["level_text"] += " The menu includes names that expand beyond any name buffer (1-3 labels of 1/32/63 bytes followed by a compression pointer to themselves or to the question) in the question, the owner name and the record target."
PROPS["C04"]["level_text"] += " A fifth start state has a lazy-mode session with a ping held by the server (so that a slot can change hands while the server still remembers a query of the previous owner)."
PROPS["C03"]["level_text"] += " A fifth start state has a logged-in lazy-mode session with a ping held by the server."
for _p in ("C10", "C14", "C15"):
    PROPS[_p]["tiers"]["thorough"]["budget_s"] = 1800      # a deadline for the deviation-bounded phases; was 3600 - a whole thorough pass of all 20 must fit into one working session

# ---- memory-safety oracles on the protocol-state explorations of other checks (--san-as): the sanitizers are the only
# oracle there, reports in the server count for C05 and reports in the client for C06
def _extra_cov(st, names):
    out = {}
    for n in names:
        p = st["parts"].get(n)
        if p:
            out[n] = {"executions": p.get("execs"), "states": p.get("states"), "transitions": p.get("steps") or p.get("transitions"), "exhaustive_within_bound": not p.get("incomplete"), "wall_s": p.get("wall_s")}
    return out

_C05_EXTRA = ["auth", "lazy", "fwd", "ea", "two"]
_cov_c05_main = cov_c05
def cov_c05_parts(st, tier):
    base = _cov_c05_main(st["parts"]["main"], tier)
    ex = _extra_cov(st, _C05_EXTRA)
    add_states = sum((v["states"] or 0) + (v["executions"] or 0) for v in ex.values())
    add_tr = sum(v["transitions"] or 0 for v in ex.values())
    base["states"] += add_states; base["transitions"] += add_tr; base["traces_validated_against_impl"] += add_states; base["evaluations"] += add_states
    base["sanitizer_oracle_on_other_explorations"] = ex
    base["rule"] += " Extra parts: the searches of C03 (auth), C16 (lazy), C20 (fwd) and the client+server explorations of C01 (ea, two clients) are re-run with the sanitizers as the only oracle; their states/executions and transitions are added."
    return base
PROPS["C05"]["coverage"] = cov_c05_parts
PROPS["C05"]["tiers"] = {"quick": {"budget_s": 900}, "thorough": {"budget_s": 2400}}
PROPS["C05"]["parts"] = [
    {"name": "main", "harness": "C05.c", "flavor": "asan", "images": (("s", "server"),), "args": [], "weight": 1},
    {"name": "auth", "harness": "auth.c", "flavor": "ubsan", "images": (("s", "server"),), "args": ["--prop", "C03", "--san-as", "C05"], "weight": 1},
    {"name": "lazy", "harness": "lazy.c", "flavor": "ubsan", "images": (("s", "server"),), "args": ["--prop", "C16", "--san-as", "C05"], "weight": 1},
    {"name": "fwd", "harness": "fwd.c", "flavor": "ubsan", "images": (("s", "server"),), "args": ["--san-as", "C05"], "tier_args": {"quick": ["--depth", "5"], "thorough": ["--depth", "6"]}, "weight": 1},
    {"name": "ea", "harness": "ea.c", "flavor": "asan", "images": (("s", "server"), ("ca", "client")), "args": ["--prop", "C01", "--san-as", "C05"], "weight": 3},
    {"name": "two", "harness": "ea2.c", "flavor": "asan", "images": (("s", "server"), ("ca", "client"), ("cb", "client")), "args": ["--prop", "C01", "--san-as", "C05"], "weight": 1},
]
PROPS["C05"]["level_text"] += " In addition the protocol-state explorations built for other properties are re-run with the sanitizers as the only oracle for the server: the authentication search (82 letters, depth 4/5), the lazy-mode/re-delivery search (75 letters incl. warmed-up sessions), the forwarding search, and the real client+server explorations (ASan build) of the configuration grid under every single fate deviation, with one and with two clients."
PROPS["C05"]["technique"] += "; plus depth-bounded explicit-state searches and deviation-bounded client+server explorations re-used with the sanitizer oracle"

_C06_EXTRA = ["ea", "two", "relay", "login"]
_cov_c06_main = cov_c06
def cov_c06_parts(st, tier):
    base = _cov_c06_main(st["parts"]["main"], tier)
    ex = _extra_cov(st, _C06_EXTRA)
    add_states = sum((v["states"] or 0) + (v["executions"] or 0) for v in ex.values())
    add_tr = sum(v["transitions"] or 0 for v in ex.values())
    base["states"] += add_states; base["transitions"] += add_tr; base["traces_validated_against_impl"] += add_states
    base["sanitizer_oracle_on_other_explorations"] = ex
    base["rule"] += " Extra parts: the client+server explorations of C01 (one and two clients), the relay family of C11 and the login-reply enumeration of C13 are re-run with the sanitizers as the only oracle for the client."
    return base
PROPS["C06"]["coverage"] = cov_c06_parts
PROPS["C06"]["tiers"] = {"quick": {"budget_s": 1200}, "thorough": {"budget_s": 2400}}
PROPS["C06"]["parts"] = [
    {"name": "main", "harness": "C06.c", "flavor": "asan", "images": (("s", "server"), ("ca", "client")), "args": [], "weight": 6},
    {"name": "ea", "harness": "ea.c", "flavor": "asan", "images": (("s", "server"), ("ca", "client")), "args": ["--prop", "C01", "--san-as", "C06"], "weight": 3},
    {"name": "two", "harness": "ea2.c", "flavor": "asan", "images": (("s", "server"), ("ca", "client"), ("cb", "client")), "args": ["--prop", "C01", "--san-as", "C06"], "weight": 1},
    {"name": "relay", "harness": "ea.c", "flavor": "asan", "images": (("s", "server"), ("ca", "client")), "args": ["--prop", "C11", "--san-as", "C06"], "weight": 1},
    {"name": "login", "harness": "C13.c", "flavor": PROPS["C13"].get("flavor", "ubsan"), "images": PROPS["C13"].get("images", (("s", "server"), ("ca", "client"))), "args": ["--san-as", "C06"], "weight": 1},
]
PROPS["C06"]["level_text"] += " In addition the real client+server explorations of the configuration grid under every single fate deviation (one and two clients, ASan build), the relay family of C11 (handshakes through 1 184 transforming relays) and the login-reply enumeration of C13 are re-run with the sanitizers as the only oracle for the client."
PROPS["C01"]["level_text"] += " The two-client part also has succession cells: client A is cut off (killed) in the middle of a multi-fragment packet in each direction, 65 s later client B logs in, inherits A's slot and tunnel address, and its traffic is judged like any other (clean path and every single deviation)."
PROPS["C02"]["parts"] = [
    {"name": "ea", "harness": "ea.c", "flavor": "ubsan", "images": (("s", "server"), ("ca", "client")), "args": ["--prop", "C02"]},
    dict(_TWO, args=["--prop", "C02"]),
]
PROPS["C02"]["level_text"] += " A third sub-check keeps the path clean and makes the one deviation of an execution a pair of small packets arriving on the client's and the server's tun device 1, 4 or 12 ms (or on one side only) after some datagram the client sends (every client datagram of the run x 15 pairs, 13 cells): three queries can then be in flight at once; every accepted packet must still arrive once, in order."
PROPS["C02"]["level_text"] += " A second part applies the clean-path oracle to the two-client exploration (client-to-client packets, bursts from the server's tun that fill one client's queue while the other is idle, and a second session that inherits a dead client's slot)."
PROPS["C11"]["parts"] = [
    {"name": "ea", "harness": "ea.c", "flavor": "ubsan", "images": (("s", "server"), ("ca", "client")), "args": ["--prop", "C11"]},
    dict(_TWO, args=["--prop", "C11"]),
]
PROPS["C11"]["level_text"] += " A second part runs the succession cells of the two-client harness: a first client negotiates on a clean path and dies, and the client under test then negotiates through a case-folding relay in the slot the first one left behind; what it settled on must carry its packets."
PROPS["C01"]["level_text"] += " A stale-duplicate sub-check uses adversarial contents: nine two-fragment upstream packets (500 ms and 5 s apart), packets 0 and 8 share the sequence number and differ in the first fragment only by an Adler-32-neutral change; the query carrying fragment 0 of packet 0 is duplicated and the copy arrives k = 2..8 packets later (NULL/TXT/CNAME x lazy/immediate x two upstream codecs): no tun write may be a packet nobody sent. For k = 8 the unchanged server does fabricate one (known finding, DESIGN.md 5.2)."
PROPS["C01"]["level_text"] += " The grid also has IPv6-transport cells (NULL/TXT/MX/CNAME/A in DNS mode, lazy and immediate, and raw UDP mode; the server listens on both families), in the clean-path set, in the single-deviation set and for two clients."
_cov_c18_base = PROPS["C18"]["coverage"]
def _cov_c18(st, tier):
    c = _cov_c18_base(st, tier)
    c["logins_through_the_real_server_loop"] = st.get("logins_through_server_loop", 0)
    c["transitions"] += st.get("logins_through_server_loop", 0)
    return c
PROPS["C18"]["coverage"] = _cov_c18
PROPS["C18"]["level_text"] += " For ten configurations (among them server and client addresses of 15 characters) every slot is also taken through the real server loop (version + login), and the server address, client address, mtu and netmask announced in the login reply must be the ones the server's table holds, distinct, and found by the lookup."
_cov_c08_base = PROPS["C08"]["coverage"]
def _cov_c08(st, tier):
    c = _cov_c08_base(st, tier)
    n = st.get("chunks_through_server_loop", 0)
    c["data_chunks_through_the_real_server_loop"] = n
    c["states"] += n; c["transitions"] += n; c["traces_validated_against_impl"] += n; c["evaluations"] += n
    return c
PROPS["C08"]["coverage"] = _cov_c08
PROPS["C08"]["level_text"] += " Part C hands data chunks of every length 1..capacity+1 (four codecs, three domains, three limits, two contents) built by the real build_hostname() to the real server loop of a logged-in session that switched to the codec; the session's reassembly buffer must hold exactly the prefix the builder reported (the server's own guards in handle_null_request() are part of the path)."
PROPS["C10"]["parts"].append({"name": "eb", "harness": "lazy.c", "flavor": "ubsan", "images": (("s", "server"),), "args": ["--prop", "C10"], "weight": 2})
PROPS["C10"]["level_text"] += " A further part runs the lazy-mode letter search of C14 (pings, data, re-deliveries in four disguises, tun packets, +20 ms / +1 s, raw login and raw frames, lazy on/off; depth 4/5) with this property's oracle: every datagram the server emits is strictly parsed and every answer must carry the id, name and type of a query that was received from that address and not yet answered."
_cov_c10_base = PROPS["C10"]["coverage"]
def _cov_c10(st, tier):
    c = _cov_c10_base(st, tier)
    eb = st["parts"].get("eb")
    if eb:
        c["eb_part"] = {"states": eb["states"], "transitions": eb["transitions"], "answers_seen": eb.get("answers_seen"), "depth_completed": eb.get("maxdepth"), "alphabet_size": eb.get("letters"), "wall_s": eb.get("wall_s")}
        c["states"] += eb["states"]; c["transitions"] += eb["transitions"]; c["traces_validated_against_impl"] += eb["transitions"]; c["evaluations"] += eb.get("letters_applied", 0)
    return c
PROPS["C10"]["coverage"] = _cov_c10
# quick-tier budgets are deadlines, not targets: generous, so that a busy machine does not cut an exploration short
for _p in ("C01", "C02", "C03", "C04", "C05", "C06", "C10", "C11", "C14", "C15", "C16", "C20"):
    PROPS[_p]["tiers"]["quick"]["budget_s"] = max(PROPS[_p]["tiers"]["quick"]["budget_s"], 1500)

