/* C19: login response follows the documented challenge-response for all inputs.
 * E-C: (password family x challenge family) full product through the real login_calculate()
 * vs an independent MD5 over the documented formula; raw-mode +1/-1 through the real
 * server loop (adversary world) and the real client handshake (client adversary world). */
#include "harness_common.h"
#include "vw.h"
#include "explore.h"
#include "images.h"
#include "refmd5.h"
#include "refdns.h"
#include "adv.h"
#include "cadv.h"

IMG_SERVER(s)
IMG_CLIENT(ca)

enum { K_CASES, K_DEP, K_RAW, K_SAN, K_ENV };
static int thorough;

static void viol(const char *what, const char *fmt, ...)
{
	char detail[300], sig[100];
	va_list ap; va_start(ap, fmt); vsnprintf(detail, sizeof detail, fmt, ap); va_end(ap);
	snprintf(sig, sizeof sig, "C19:%s", what);
	xp_violation(sig, "%s", detail);
}

/* A sanitizer report inside the login computation or the +1/-1 arithmetic means the response is not defined by the
 * language for that challenge ("for all 2^32 challenges"); reports elsewhere are counted as a note (C05/C06 own them). */
static void on_san(const char *sig)
{
	if (getenv("VERIF_VERBOSE")) dprintf(2, "sanitizer note: %s\n", sig);
	xp_count(3, 1);
	if (strstr(sig, "signed-integer-overflow") || strstr(sig, "login.c") || strstr(sig, "md5.c")) {
		char what[160]; snprintf(what, sizeof what, "undefined-arithmetic-on-challenge:%s", sig);
		viol(what, "the sanitizer reports %s while a login response is computed for a wrap-around challenge", sig);
	}
}

static uint32_t CH[128]; static int nch;
static void mk_challenges(void)
{
	uint32_t base[] = { 0, 0xffffffffu, 0x7fffffffu, 0x80000000u, 1, 0x01020304u, 0xfffefdfcu };
	for (unsigned i = 0; i < sizeof base / 4; i++) CH[nch++] = base[i];
	for (int b = 0; b < 32; b++) { CH[nch++] = 1u << b; CH[nch++] = ~(1u << b); }
	for (int l = 0; l < 4; l++) { CH[nch++] = 0xffu << (8 * l); CH[nch++] = ~(0xffu << (8 * l)); }
}

static void one(const unsigned char *pwbuf /* 40 bytes */, uint32_t ch, int plen, int tag)
{
	/* iodine keeps passwords in zero-padded 33-byte buffers: first 32 bytes are what counts */
	unsigned char out[16], want[16], p32[33];
	memset(p32, 0, sizeof p32);
	memcpy(p32, pwbuf, plen > 32 ? 32 : plen);
	memset(out, 0xEE, 16);
	s_login_calculate((char *)out, 16, (char *)p32, (int)ch);
	ref_login(p32, ch, want);
	xp_count(K_CASES, 1);
	if (memcmp(out, want, 16)) viol("digest-differs-from-documented-formula", "password len %d tag %d challenge 0x%08x: real %02x%02x%02x%02x.. want %02x%02x%02x%02x..",
					   plen, tag, ch, out[0], out[1], out[2], out[3], want[0], want[1], want[2], want[3]);
	xp_outcome(((uint64_t)out[0] << 24 | out[1] << 16 | out[2] << 8 | out[3]) ^ ((uint64_t)out[4] << 32));
}

/* job 0..3: base fill; 4: dependence/independence; 5: md5 self-test vectors; 6: raw server; 7: raw client */
static void job_pure(int fill)
{
	static const unsigned char V[4] = { 0x01, 0x7f, 0x80, 0xff };
	unsigned char pw[40];
	for (int plen = 0; plen <= 40; plen++) {
		for (int i = 0; i < 40; i++) pw[i] = fill == 0 ? 'a' : fill == 1 ? 0xff : fill == 2 ? 0x80 : (unsigned char)(i + 1);
		for (int c = 0; c < nch; c++) one(pw, CH[c], plen, -1);
		for (int pos = 0; pos < plen; pos++)
			for (int v = 0; v < 4; v++) {
				unsigned char sv = pw[pos];
				pw[pos] = V[v];
				for (int c = 0; c < nch; c += (thorough ? 1 : 3)) one(pw, CH[c], plen, pos);
				pw[pos] = sv;
			}
	}
	xp_sample("fill %d: password lengths 0..40 x every position set to {01,7f,80,ff} x %d challenges (boundary, single-bit, single-zero, byte-lane)", fill, nch);
}

static void job_dep(void)
{
	/* depends on each of the first 32 bytes and on the challenge, on nothing else */
	unsigned char base[16], out[16], a[40], b[40];
	for (int i = 0; i < 40; i++) a[i] = (unsigned char)(0x20 + i);
	s_login_calculate((char *)base, 16, (char *)a, 0x12345678);
	for (int pos = 0; pos < 32; pos++) {
		memcpy(b, a, 40); b[pos] ^= 0x01;
		s_login_calculate((char *)out, 16, (char *)b, 0x12345678);
		xp_count(K_DEP, 1);
		if (!memcmp(out, base, 16)) viol("independent-of-password-byte", "flipping password byte %d does not change the response", pos);
	}
	for (int pos = 32; pos < 40; pos++) {
		memcpy(b, a, 40); b[pos] ^= 0xff;
		s_login_calculate((char *)out, 16, (char *)b, 0x12345678);
		xp_count(K_DEP, 1);
		if (memcmp(out, base, 16)) viol("depends-on-byte-beyond-32", "password byte %d changes the response", pos);
	}
	for (int bit = 0; bit < 32; bit++) {
		s_login_calculate((char *)out, 16, (char *)a, 0x12345678 ^ (1u << bit));
		xp_count(K_DEP, 1);
		if (!memcmp(out, base, 16)) viol("independent-of-challenge-bit", "flipping challenge bit %d does not change the response", bit);
	}
	/* buflen < 16 must not write */
	memset(out, 0xEE, 16);
	s_login_calculate((char *)out, 15, (char *)a, 1);
	for (int i = 0; i < 16; i++) if (out[i] != 0xEE) { viol("writes-into-short-buffer", "buflen 15 but output written"); break; }
	/* RFC 1321 test vectors for the reference itself */
	unsigned char d[16]; static const unsigned char abc[16] = { 0x90,0x01,0x50,0x98,0x3c,0xd2,0x4f,0xb0,0xd6,0x96,0x3f,0x7d,0x28,0xe1,0x7f,0x72 };
	ref_md5((const unsigned char *)"abc", 3, d);
	if (memcmp(d, abc, 16)) { dprintf(1, "HARNESS-ERROR reference MD5 fails RFC 1321 vector\n"); _exit(2); }
	xp_sample("dependence on each of password bytes 0..31 and each challenge bit; independence of bytes 32..39");
}

/* raw login towards the real server: needs a DNS-mode login first */
static const char *PW = "sesame";
static unsigned char pw32[33];

static int b32enc(const unsigned char *in, int n, char *out)
{
	size_t cap = 200;
	return s_base32_ops.encode(out, &cap, in, n);
}

static int mkq(uint8_t *pkt, int id, char cmd, const unsigned char *payload, int plen, const char *dom)
{
	char name[300]; uint8_t wire[300];
	name[0] = cmd;
	int l = b32enc(payload, plen, name + 1);
	snprintf(name + 1 + l, sizeof name - 1 - l, ".%s", dom);
	int wl = rd_dotted_to_wire(name, strlen(name), wire, sizeof wire);
	return rd_mkquery(pkt, 600, id, wire, wl, 10, 0);
}

static int null_payload(const adv_out *o, const uint8_t **p)
{
	rd_msg m; char err[128];
	if (rd_parse(o->data, o->len, &m, err) || m.nrr < 1) return -1;
	*p = o->data + m.rr[0].rdoff;
	return m.rr[0].rdlen;
}

static void job_raw_server(void)
{
	int seeds[16] = { 0, 1, 2, 0x7ffffffe, 0x12345678, 0x00ff00ff, 0x7fffffff };
	unsigned nseeds = 7;
	/* challenges whose documented response (DNS: challenge, raw: challenge + 1) has a zero byte at the first / eighth position */
	for (int which = 0; which < 2; which++) for (int z = 0; z < 8; z += 7)
		for (uint32_t c = 0x2000u + 0x100000u * (uint32_t)(which * 2 + z); ; c++) { unsigned char d[16]; ref_login(pw32, c + which, d); if (d[z] == 0) { seeds[nseeds++] = (int)c; break; } }
	for (unsigned k = 0; k < nseeds; k++) {
		if (xp_fork_wait() != 0) continue;
		struct w_server_cfg c = { .topdomain = "t.example.com", .password = PW, .my_ip = "10.0.0.1", .netmask = 29, .mtu = 1130, .check_ip = 1, .srand_seed = 1 };
		vw_init();
		W.hooks.on_sanitizer = on_san;
		W.proc[0].nrand_forced = 1; W.proc[0].rand_forced[0] = seeds[k];
		adv_boot(&c, 0, 0);
		W.proc[0].nrand_forced = 1; W.proc[0].rand_forced[0] = seeds[k]; W.proc[0].rand_forced_pos = 0;
		struct sockaddr_storage me; socklen_t ml; vw_mkaddr(&me, &ml, "198.51.100.7", 4000);
		uint8_t pkt[700]; const uint8_t *pl; int n;
		unsigned char ver[6] = { 0, 0, 5, 2, 0x11, 0x22 };
		adv_clear(); adv_send(&me, ml, pkt, mkq(pkt, 100, 'v', ver, 6, c.topdomain));
		if (adv_nout != 1 || (n = null_payload(&adv_outs[0], &pl)) < 9 || memcmp(pl, "VACK", 4)) { dprintf(1, "HARNESS-ERROR no VACK in raw-server job\n"); _exit(2); }
		uint32_t seed = (pl[4] << 24) | (pl[5] << 16) | (pl[6] << 8) | pl[7];
		if ((int)seed != seeds[k]) { dprintf(1, "HARNESS-ERROR forced challenge not used (%08x)\n", seed); _exit(2); }
		unsigned char login[19] = { pl[8] };
		/* a response that agrees with the documented one only up to its first zero byte is not the documented one */
		ref_login(pw32, seed, login + 1);
		{ unsigned char *z = memchr(login + 1, 0, 15); if (z) {
			for (unsigned char *q = z + 1; q < login + 17; q++) *q ^= 0x5a;
			login[17] = 7; login[18] = 7;
			adv_clear(); adv_send(&me, ml, pkt, mkq(pkt, 99, 'l', login, 19, c.topdomain));
			xp_count(K_RAW, 1);
			if (adv_nout == 1 && (n = null_payload(&adv_outs[0], &pl)) >= 10 && memchr(pl, '-', n)) viol("response-right-only-up-to-a-zero-byte-accepted", "challenge 0x%08x: a response that matches the documented one only up to its first zero byte is accepted", seed);
		} }
		ref_login(pw32, seed, login + 1);
		login[17] = 1; login[18] = 2;
		adv_clear(); adv_send(&me, ml, pkt, mkq(pkt, 101, 'l', login, 19, c.topdomain));
		if (adv_nout != 1 || (n = null_payload(&adv_outs[0], &pl)) < 10 || !memchr(pl, '-', n)) viol("documented-login-rejected-by-server", "server does not accept the documented response for challenge 0x%08x", seed);
		/* raw login: documented = challenge+1 towards the server, reply uses challenge-1 */
		unsigned char raw[20] = { 0x10, 0xd1, 0x9e, 0x10 };
		ref_login(pw32, seed + 1, raw + 4);
		adv_clear(); adv_send(&me, ml, raw, 20);
		xp_count(K_RAW, 1);
		unsigned char want[16]; ref_login(pw32, seed - 1, want);
		if (adv_nout != 1 || adv_outs[0].len != 20) viol("raw-login-plus-one-rejected", "server does not answer a raw login computed with challenge+1 (challenge 0x%08x)", seed);
		else if (memcmp(adv_outs[0].data + 4, want, 16)) viol("raw-reply-not-challenge-minus-one", "server's raw login reply is not the documented response for challenge-1 (challenge 0x%08x)", seed);
		/* and a raw login computed with the plain challenge must not be accepted */
		ref_login(pw32, seed, raw + 4);
		adv_clear(); adv_send(&me, ml, raw, 20);
		if (adv_nout != 0) viol("raw-login-with-plain-challenge-accepted", "server answers a raw login computed without +1");
		/* the same slot, later sessions: the expected response must follow each session's own challenge (two more sessions, 61 s apart;
		 * challenges that differ from the first one in the top byte only, in the low bit only, and in every byte) */
		uint32_t first = seed;
		static const uint32_t DELTA[3] = { 0x41000000u, 0x00000001u, 0x5a3c6901u };
		for (int sess = 0; sess < 3; sess++) {
			uint32_t ch = (first ^ DELTA[sess]) & 0x7fffffffu;
			if (ch == first) ch ^= 2;
			adv_advance(61 * 1000000LL);
			W.proc[0].nrand_forced = 1; W.proc[0].rand_forced[0] = (int)ch; W.proc[0].rand_forced_pos = 0;
			adv_clear(); adv_send(&me, ml, pkt, mkq(pkt, 200 + sess, 'v', ver, 6, c.topdomain));
			if (adv_nout != 1 || (n = null_payload(&adv_outs[0], &pl)) < 9 || memcmp(pl, "VACK", 4)) { viol("version-refused-after-idle-slot", "no VACK for a new session 61 s after the previous one went silent"); break; }
			uint32_t got = (pl[4] << 24) | (pl[5] << 16) | (pl[6] << 8) | pl[7];
			if (got != ch) { dprintf(1, "HARNESS-ERROR forced challenge not used in later session (%08x vs %08x)\n", got, ch); _exit(2); }
			unsigned char lg[19] = { pl[8] };
			/* a replay of the first session's response must be refused ... */
			ref_login(pw32, first, lg + 1); lg[17] = 3; lg[18] = (unsigned char)sess;
			adv_clear(); adv_send(&me, ml, pkt, mkq(pkt, 210 + sess, 'l', lg, 19, c.topdomain));
			xp_count(K_RAW, 1);
			if (adv_nout == 1 && (n = null_payload(&adv_outs[0], &pl)) >= 10 && memchr(pl, '-', n))
				viol("response-to-an-earlier-challenge-accepted", "slot re-used with challenge 0x%08x: the response computed for the earlier challenge 0x%08x is accepted", ch, first);
			/* ... a response that differs from the documented one in a single byte (every position, low bit / high bit) refused
			 * (seeded C19-h: a comparison helper whose result is truncated so that only bytes 0, 4, 8 and 12 decide) ... */
			for (int pos = 0; pos < 16; pos++) for (int bit = 0; bit < 2; bit++) {
				ref_login(pw32, ch, lg + 1); lg[1 + pos] ^= bit ? 0x80 : 0x01; lg[17] = 5 + bit; lg[18] = (unsigned char)(sess * 16 + pos);
				adv_clear(); adv_send(&me, ml, pkt, mkq(pkt, 300 + sess * 32 + pos * 2 + bit, 'l', lg, 19, c.topdomain));
				xp_count(K_RAW, 1);
				if (adv_nout == 1 && (n = null_payload(&adv_outs[0], &pl)) >= 10 && memchr(pl, '-', n))
					viol("response-wrong-in-one-byte-accepted", "challenge 0x%08x: the documented response with byte %d changed by 0x%02x is accepted", ch, pos, bit ? 0x80 : 0x01);
			}
			/* ... and the documented response to this session's challenge accepted */
			ref_login(pw32, ch, lg + 1); lg[17] = 4; lg[18] = (unsigned char)sess;
			adv_clear(); adv_send(&me, ml, pkt, mkq(pkt, 220 + sess, 'l', lg, 19, c.topdomain));
			xp_count(K_RAW, 1);
			if (adv_nout != 1 || (n = null_payload(&adv_outs[0], &pl)) < 10 || !memchr(pl, '-', n))
				viol("documented-login-rejected-by-server", "slot re-used: server does not accept the documented response for this session's challenge 0x%08x (previous session had 0x%08x)", ch, first);
		}
		xp_outcome(0x7000 + k);
		xp_child_exit();
	}
	xp_sample("DNS and raw login against the real server loop for forced challenges 0,1,2,0x7ffffffe,0x12345678,0x00ff00ff,0x7fffffff and four whose documented response has a zero byte at position 0 / 7 (e.g. 0x%08x)", seeds[7]);
}

/* real client handshake in raw mode against a scripted server: capture its DNS login and raw login bytes */
static void job_raw_client(void)
{
	uint32_t seeds[24] = { 0, 1, 0xffffffffu, 0x7ffffffeu, 0x80000000u, 0x80000001u, 0x12345678u, 0x7fffffffu };
	unsigned nseeds = 8;
	/* challenges whose documented response (DNS login: challenge, raw login: challenge + 1) has a zero byte at the first, second,
	 * eighth, last-but-one and last position: a response handled as a C string shows */
	static const int ZPOS[5] = { 0, 1, 7, 14, 15 };
	for (int which = 0; which < 2; which++) for (int z = 0; z < 5; z++)
		for (uint32_t c = 0x1000u + 0x100000u * (uint32_t)(which * 5 + z); ; c++) { unsigned char d[16]; ref_login(pw32, c + which, d); if (d[ZPOS[z]] == 0) { seeds[nseeds++] = c; break; } }
	for (unsigned k = 0; k < nseeds; k++) {
		if (xp_fork_wait() != 0) continue;
		vw_init();
		W.hooks.on_sanitizer = on_san;
		cadv_password = PW;
		cadv_boot("NULL", "", 1, 1);
		uint32_t seed = seeds[k];
		int got_login = 0, got_raw = 0;
		for (int round = 0; round < 40 && vw_alive(1) && !got_raw; round++) {
			if (cadv_nout == 0) { int64_t t = vw_next_time(); if (t == VW_NEVER) break; vw_run_until(t); vw_run_quiescent(0); continue; }
			cadv_out o = cadv_outs[0];
			memmove(cadv_outs, cadv_outs + 1, sizeof(cadv_out) * (cadv_nout - 1)); cadv_nout--;
			if (o.kind != 0) continue;
			if (o.len >= 4 && o.data[0] == 0x10 && o.data[1] == 0xd1 && o.data[2] == 0x9e) {
				unsigned char want[16]; ref_login(pw32, seed + 1, want);
				xp_count(K_RAW, 1);
				got_raw = 1;
				if ((o.data[3] & 0xf0) != 0x10 || o.len != 20) viol("client-raw-login-malformed", "len %d cmd %02x", o.len, o.data[3]);
				else if (memcmp(o.data + 4, want, 16)) viol("client-raw-login-not-challenge-plus-one", "client raw login is not the documented response for challenge+1 (challenge 0x%08x)", seed);
				break;
			}
			rd_msg m; char err[128];
			if (rd_parse(o.data, o.len, &m, err)) continue;
			char c = m.qname[1];
			uint8_t ans[700]; int al = -1;
			if (c == 'v') { unsigned char r[9] = { 'V', 'A', 'C', 'K', seed >> 24, seed >> 16, seed >> 8, seed, 3 }; al = rd_mkanswer(ans, sizeof ans, o.data, o.len, r, 9, 0); }
			else if (c == 'l') {
				/* name = 'l' + base32(userid, 16 bytes hash, 2 bytes cmc) */
				char lab[300]; int ll = 0, p = 0;
				while (m.qname[p] && ll < 250) { int l = m.qname[p]; memcpy(lab + ll, m.qname + p + 1, l); ll += l; p += 1 + l; if (ll > 40) break; }
				unsigned char dec[64]; size_t dl = sizeof dec;
				int n = s_base32_ops.decode(dec, &dl, lab + 1, 31);
				unsigned char want[16]; ref_login(pw32, seed, want);
				xp_count(K_RAW, 1);
				got_login = 1;
				if (n < 17 || dec[0] != 3) viol("client-login-malformed", "decoded %d bytes userid %d", n, dec[0]);
				else if (memcmp(dec + 1, want, 16)) viol("client-login-not-documented-formula", "bytes 1..16 of the client's login message differ from the documented response (challenge 0x%08x)", seed);
				const char *rep = "10.0.0.1-10.0.0.4-1130-29";
				al = rd_mkanswer(ans, sizeof ans, o.data, o.len, (const uint8_t *)rep, strlen(rep), 0);
			} else if (c == 'i') { unsigned char r[5] = { 'I', 192, 0, 2, 1 }; al = rd_mkanswer(ans, sizeof ans, o.data, o.len, r, 5, 0); }
			else continue;
			if (al > 0) cadv_reply(ans, al);
		}
		if (!got_login || !got_raw) viol("client-handshake-did-not-reach-raw-login", "login seen %d raw seen %d (challenge 0x%08x)", got_login, got_raw, seed);
		xp_outcome(0x8000 + k);
		xp_child_exit();
	}
	xp_sample("real client handshake (-T NULL, raw mode) against a scripted server for challenges 0,1,ffffffff,7ffffffe,80000000,80000001,12345678,7fffffff and ten challenges whose documented DNS / raw response has a zero byte at position 0, 1, 7, 14, 15 (e.g. 0x%08x)", seeds[8]);
}


/* the same handshake under every environment answer sequence: each wait for the DNS login answer and each wait
 * for the raw login answer gets one of a small menu of non-answers (silence, a late duplicate of an earlier
 * DNS answer, a raw frame with a wrong digest, a runt raw frame, a raw ping frame); every (re)transmitted login,
 * DNS or raw, must still carry the documented digest, and a correct answer afterwards must still be accepted. */
enum { EV_SILENCE, EV_DUP_DNS, EV_RAW_WRONG, EV_RAW_RUNT, EV_RAW_PING, EV_N };
static void run_env(uint32_t seed, const int *lenv, int nl, const int *renv, int nr, int tag)
{
	vw_init();
	W.hooks.on_sanitizer = on_san;
	cadv_password = PW;
	cadv_boot("NULL", "", 1, 1);
	int il = 0, ir = 0, nlogin = 0, nraw = 0, accepted = 0;
	uint8_t lastans[700]; int lastlen = 0;
	for (int round = 0; round < 200 && vw_alive(1); round++) {
		if (cadv_nout == 0) { int64_t t = vw_next_time(); if (t == VW_NEVER) break; vw_run_until(t); vw_run_quiescent(0); continue; }
		cadv_out o = cadv_outs[0];
		memmove(cadv_outs, cadv_outs + 1, sizeof(cadv_out) * (cadv_nout - 1)); cadv_nout--;
		if (o.kind != 0) continue;
		if (o.len >= 4 && o.data[0] == 0x10 && o.data[1] == 0xd1 && o.data[2] == 0x9e) {
			if ((o.data[3] & 0xf0) != 0x10) { accepted = 1; break; }     /* raw ping/data: the client is in raw mode */
			unsigned char want[16]; ref_login(pw32, seed + 1, want);
			xp_count(K_RAW, 1); nraw++;
			if (o.len != 20) viol("client-raw-login-malformed", "len %d", o.len);
			else if (memcmp(o.data + 4, want, 16)) viol("client-raw-login-not-challenge-plus-one", "raw login #%d is not the documented response for challenge+1 (challenge 0x%08x) after environment answers", nraw, seed);
			int ev = ir < nr ? renv[ir] : -1; ir++;
			unsigned char f[40] = { 0x10, 0xd1, 0x9e, 0x10 };
			if (ev == -1) { ref_login(pw32, seed - 1, f + 4); cadv_reply(f, 20); }
			else if (ev == EV_DUP_DNS && lastlen) cadv_reply(lastans, lastlen);
			else if (ev == EV_RAW_WRONG) { ref_login(pw32, seed, f + 4); cadv_reply(f, 20); }
			else if (ev == EV_RAW_RUNT) cadv_reply(f, 10);
			else if (ev == EV_RAW_PING) { f[3] = 0x30; memset(f + 4, 0x55, 30); cadv_reply(f, 34); }
			continue;
		}
		rd_msg m; char err[128];
		if (rd_parse(o.data, o.len, &m, err)) continue;
		char c = m.qname[1];
		uint8_t ans[700]; int al = -1;
		if (c == 'v') { unsigned char r[9] = { 'V', 'A', 'C', 'K', seed >> 24, seed >> 16, seed >> 8, seed, 3 }; al = rd_mkanswer(ans, sizeof ans, o.data, o.len, r, 9, 0); }
		else if (c == 'l') {
			char lab[300]; int ll = 0, p = 0;
			while (m.qname[p] && ll < 250) { int l = m.qname[p]; memcpy(lab + ll, m.qname + p + 1, l); ll += l; p += 1 + l; if (ll > 40) break; }
			unsigned char dec[64]; size_t dl = sizeof dec;
			int n = s_base32_ops.decode(dec, &dl, lab + 1, 31);
			unsigned char want[16]; ref_login(pw32, seed, want);
			xp_count(K_RAW, 1); nlogin++;
			if (n < 17 || dec[0] != 3) viol("client-login-malformed", "decoded %d bytes userid %d", n, dec[0]);
			else if (memcmp(dec + 1, want, 16)) viol("client-login-not-documented-formula", "login #%d: bytes 1..16 differ from the documented response (challenge 0x%08x)", nlogin, seed);
			int ev = il < nl ? lenv[il] : -1; il++;
			if (ev == -1) { const char *rep = "10.0.0.1-10.0.0.4-1130-29"; al = rd_mkanswer(ans, sizeof ans, o.data, o.len, (const uint8_t *)rep, strlen(rep), 0); }
			else if (ev == EV_DUP_DNS && lastlen) { cadv_reply(lastans, lastlen); continue; }
			else continue;
		} else if (c == 'i') { unsigned char r[5] = { 'I', 192, 0, 2, 1 }; al = rd_mkanswer(ans, sizeof ans, o.data, o.len, r, 5, 0); }
		else continue;
		if (al > 0) { memcpy(lastans, ans, al); lastlen = al; cadv_reply(ans, al); }
	}
	if (nlogin != nl + 1) viol("client-login-retransmissions-unexpected", "expected %d DNS logins, saw %d", nl + 1, nlogin);
	if (nraw != (nr < 4 ? nr + 1 : 4)) viol("client-raw-login-retransmissions-unexpected", "expected %d raw logins, saw %d", nr < 4 ? nr + 1 : 4, nraw);
	if (nr < 4 && !accepted) viol("correct-raw-reply-not-accepted", "after %d environment answers the documented challenge-1 reply did not switch the client to raw mode (challenge 0x%08x)", nr, seed);
	if (nr >= 4 && accepted) viol("raw-mode-without-valid-reply", "client went to raw mode without the documented reply");
	xp_outcome(0x9000 + tag * 8 + nraw * 2 + accepted);
}

static void job_raw_client_env(void)
{
	uint32_t seeds[] = { 0x80000000u, 0x7fffffffu, 0xffffffffu, 0x12345678u, 0, 1 };
	int ns = thorough ? 6 : 3;
	long runs = 0;
	for (int k = 0; k < ns; k++) {
		/* raw phase: every sequence of 0..4 non-answers */
		int total = 1; 
		for (int n = 0; n <= 4; n++, total *= EV_N)
			for (int code = 0; code < total; code++) {
				int env[4], c = code;
				for (int i = 0; i < n; i++) { env[i] = c % EV_N; c /= EV_N; }
				runs++;
				if (xp_fork_wait() != 0) continue;
				run_env(seeds[k], NULL, 0, env, n, 1);
				xp_child_exit();
			}
		/* DNS login phase: every sequence of 0..3 of {silence, duplicate} before the answer, each followed by raw phase with 0 or 1 duplicate */
		for (int n = 0; n <= 3; n++)
			for (int code = 0; code < (1 << n); code++)
				for (int rr = 0; rr < 2; rr++) {
					int env[3], renv[1] = { EV_DUP_DNS };
					for (int i = 0; i < n; i++) env[i] = (code >> i) & 1 ? EV_DUP_DNS : EV_SILENCE;
					runs++;
					if (xp_fork_wait() != 0) continue;
					run_env(seeds[k], env, n, renv, rr, 2);
					xp_child_exit();
				}
	}
	xp_count(K_ENV, runs);
	xp_sample("real client handshake under every sequence of 0..4 non-answers {silence, late duplicate DNS answer, raw frame with wrong digest, runt raw frame, raw ping} at the raw-login waits and 0..3 {silence, duplicate} at the DNS-login waits, %d challenges: %ld handshakes", ns, runs);
}

static void job(int j)
{
	W.hooks.on_sanitizer = on_san;
	if (j < 4) job_pure(j);
	else if (j == 4) job_dep();
	else if (j == 5) job_raw_server();
	else if (j == 6) job_raw_client();
	else job_raw_client_env();
}

int main(int argc, char **argv)
{
	hc_args a = hc_parse(argc, argv, "C19");
	thorough = a.thorough;
	vw_init();
	memset(pw32, 0, sizeof pw32); strcpy((char *)pw32, PW);
	mk_challenges();
	xp_init("C19", a.tier, 1024, a.budget_s);
	xp_guard("!C19", NULL, 0);
	if (a.replay) { job(xp_load_replay(a.replay)); return 0; }
	hc_quiet();
	xp_run_jobs(8, job, a.workers);
	char extra[300];
	snprintf(extra, sizeof extra, "\"cases\":%ld,\"dependence_checks\":%ld,\"raw_checks\":%ld,\"challenges\":%d,\"sanitizer_notes_for_C05_C06\":%ld,\"env_handshakes\":%ld", XS->counters[K_CASES], XS->counters[K_DEP], XS->counters[K_RAW], nch, XS->counters[3], XS->counters[K_ENV]);
	xp_print_stats(extra);
	return 0;
}
