/* C20: forwarded non-tunnel queries get their reply routed back to the asker.
 * E-B: depth-bounded exhaustive search over {forwardable query from requester r with id i, reply
 * with id i on the local-DNS socket, tunnel-domain query} against the real server loop started
 * with -b, from start states with the 16-entry ring empty / nearly full / wrapped.
 * ./fwd --tier quick|thorough                                         DESIGN.md 2, C20 */
#include <ctype.h>
#include "harness_common.h"
#include "vw.h"
#include "explore.h"
#include "images.h"
#include "refdns.h"
#include "adv.h"
#include "tmsg.h"
#include "eb.h"
#include "srvstate.h"

IMG_SERVER(s)

static const char *DOM = "t.example.com";
#define BINDPORT 5353
enum { K_LETTERS, K_FWD, K_REPLIES_ROUTED, K_REPLIES_DROPPED, K_AMBIG, K_TUNNEL, K_SAN = 20 };

enum { L_Q, L_R, L_T };
typedef struct letter { int kind, r, id, v; char name[40]; } letter;
static letter LT[64]; static int nlt;
#define NREQ 4                     /* A B C + filler D */
static struct sockaddr_storage REQ[NREQ]; static socklen_t RLENS[NREQ], RLEN;   /* requester C asks over IPv6 */
static struct sockaddr_storage LOCALDNS;
static const char *REQN[NREQ] = { "A", "B", "C(IPv6)", "D" };
/* two ordinary names, a name of the maximal length (253 characters: the forwarded query with its EDNS0 record is as large
 * as a query gets; seeded C20-i), and the root name (priming queries ask ". NS") */
static char LONGNAME[260];
static struct { const char *name; int type; } QN[4] = { { "www.other.org", 1 }, { "Mail.Foo-bar.net", 15 }, { LONGNAME, 1 }, { "", 2 } };

static void addl(int kind, int r, int id, int v, const char *fmt, ...)
{
	letter *l = &LT[nlt++]; l->kind = kind; l->r = r; l->id = id; l->v = v;
	va_list ap; va_start(ap, fmt); vsnprintf(l->name, sizeof l->name, fmt, ap); va_end(ap);
}

/* reference model: the forwarded queries in order (requester, id) */
#define MAXM 64
typedef struct model { int n; struct { int r, id; } e[MAXM]; } model;
static model M;

static void viol(const char *what, const char *fmt, ...)
{
	if (hc_san_as) return;
	char detail[380], sig[120];
	va_list ap; va_start(ap, fmt); vsnprintf(detail, sizeof detail, fmt, ap); va_end(ap);
	snprintf(sig, sizeof sig, "C20:%s", what);
	xp_violation(sig, "%s", detail);
}
static void on_san(const char *sig) { if (hc_san_report(sig, 0, "the query-forwarding search")) return; xp_count(K_SAN, 1); }

static int snap_regions(vw_region *out, int max, char *note) { (void)max; (void)note; out[0].p = &M; out[0].n = sizeof M; return 1; }

static int req_of(const struct sockaddr_storage *a) { for (int i = 0; i < NREQ; i++) if (vw_addr_eq(a, &REQ[i])) return i; return -1; }

static int mk_fwd_query(uint8_t *pkt, int id, int v)
{
	uint8_t wire[300];
	int wl = rd_dotted_to_wire(QN[v].name, (int)strlen(QN[v].name), wire, sizeof wire);
	return rd_mkquery(pkt, 600, id, wire, wl, QN[v].type, 0);
}

static int mk_reply(uint8_t *pkt, int id)
{
	uint8_t q[600], rdata[4] = { 93, 184, 216, (uint8_t)(34 + id) };
	int ql = mk_fwd_query(q, id, 0);
	return rd_mkanswer(pkt, 600, q, ql, rdata, 4, 0);
}

static int apply(int li)
{
	const letter *L = &LT[li];
	uint8_t pkt[700]; int plen;
	adv_clear();
	xp_count(K_LETTERS, 1);
	if (L->kind == L_Q) {
		if (M.n >= MAXM) return 1;
		plen = mk_fwd_query(pkt, L->id, L->v);
		adv_send(&REQ[L->r], RLENS[L->r], pkt, plen);
		/* exactly one datagram, to the local DNS port, same id / name / type */
		int nf = 0;
		for (int i = 0; i < adv_nout; i++) {
			adv_out *o = &adv_outs[i];
			if (o->kind == 2 && vw_addr_eq(&o->dst, &LOCALDNS)) {
				static rd_msg m, want; char err[128];
				nf++;
				if (rd_parse(o->data, o->len, &m, err)) { viol("forwarded-query-malformed", "%s: forwarded datagram is not a well-formed query: %s", L->name, err); continue; }
				rd_parse(pkt, plen, &want, err);
				if (m.qr || m.id != L->id || m.qtype != want.qtype || m.qnamelen != want.qnamelen || memcmp(m.qname, want.qname, m.qnamelen))
					viol("forwarded-query-differs", "%s: forwarded with id %d type %d (asked: id %d type %d)%s", L->name, m.id, m.qtype, L->id, want.qtype, (m.qnamelen != want.qnamelen || memcmp(m.qname, want.qname, m.qnamelen)) ? ", different name" : "");
				else xp_count(K_FWD, 1);
			} else if (o->dst.ss_family != 0)
				viol("query-caused-other-output", "%s caused a %s to %s", L->name, o->kind == 3 ? "tun write" : "datagram", vw_addr_str(&o->dst));
		}
		if (nf != 1) viol(L->v == 3 && nf == 0 ? "root-name-query-not-forwarded" : "query-not-forwarded-once", "%s was forwarded %d times", L->name, nf);
		/* the model remembers what was forwarded (a query the server dropped has been reported just above; replies bearing
		 * its id are then judged like replies to a query never asked) */
		if (nf >= 1) { M.e[M.n].r = L->r; M.e[M.n].id = L->id; M.n++; }
		xp_outcome(0x100 + nf);
	} else if (L->kind == L_R) {
		plen = mk_reply(pkt, L->id);
		if (L->v == 1) { plen = 12; pkt[3] = (pkt[3] & 0xf0) | 5; memset(pkt + 4, 0, 8); }      /* REFUSED, no sections */
		if (L->v == 2) plen = 5;
		adv_send_sock(adv_bind_sock, &LOCALDNS, RLEN, pkt, plen);
		/* who may get it: entries with this id among the 16 most recent forwarded queries */
		int cand[16], nc = 0;
		for (int k = M.n - 1; k >= 0 && k >= M.n - 16; k--) if (M.e[k].id == L->id) cand[nc++] = M.e[k].r;
		int delivered_to = -1, ndeliv = 0;
		for (int i = 0; i < adv_nout; i++) {
			adv_out *o = &adv_outs[i];
			if (o->dst.ss_family == 0) continue;                 /* sendto() without an address fails in the kernel */
			int r = req_of(&o->dst);
			if (o->kind == 3 || r < 0) { viol("reply-caused-other-output", "%s caused a %s to %s", L->name, o->kind == 3 ? "tun write" : "datagram", vw_addr_str(&o->dst)); continue; }
			ndeliv++; delivered_to = r;
			if (o->kind != (REQ[r].ss_family == AF_INET6 ? 1 : 0)) viol("reply-sent-from-wrong-socket", "%s: reply for %s left through socket kind %d", L->name, REQN[r], o->kind);
			if (o->full_len != plen || memcmp(o->data, pkt, plen)) viol("reply-modified", "%s: reply relayed to %s with different bytes (%d vs %d)", L->name, REQN[r], o->full_len, plen);
		}
		if (nc == 0) {
			if (ndeliv) viol("reply-with-unknown-id-sent-to-a-requester", "%s: no remembered query has id %d but the reply went to %s", L->name, L->id, REQN[delivered_to]);
			else xp_count(K_REPLIES_DROPPED, 1);
		} else {
			int distinct = 1; for (int k = 1; k < nc; k++) if (cand[k] != cand[0]) distinct = 0;
			int ok = 0; for (int k = 0; k < nc; k++) if (cand[k] == delivered_to) ok = 1;
			if (L->v == 2 && ndeliv == 0) xp_count(K_REPLIES_DROPPED, 1);      /* a runt is no DNS reply: dropping it is fine, sending it elsewhere is not */
			else if (ndeliv != 1) viol("reply-not-relayed-once", "%s: %d of the 16 most recent forwarded queries have id %d but the reply was relayed %d times", L->name, nc, L->id, ndeliv);
			else if (!ok) viol("reply-sent-to-wrong-requester", "%s: asked by %s, relayed to %s", L->name, REQN[cand[0]], REQN[delivered_to]);
			else { xp_count(K_REPLIES_ROUTED, 1); if (!distinct) xp_count(K_AMBIG, 1); }
		}
		xp_outcome(0x200 + nc * 8 + ndeliv);
	} else {
		char s[] = "zabcAbC09";
		plen = tm_query(pkt, sizeof pkt, 77, 10, s, (int)strlen(s), DOM, 0);
		adv_send(&REQ[0], RLENS[0], pkt, plen);
		int na = 0;
		for (int i = 0; i < adv_nout; i++) {
			adv_out *o = &adv_outs[i];
			if (o->kind == 2) viol("tunnel-query-forwarded", "a query under the tunnel domain was forwarded to the local DNS port");
			else if (o->kind == 0 && vw_addr_eq(&o->dst, &REQ[0])) na++;
		}
		if (na != 1) viol("tunnel-query-not-answered", "tunnel-domain query answered %d times", na);
		xp_count(K_TUNNEL, 1);
		xp_outcome(0x300 + na);
	}
	if (adv_out_dropped) vw_fatal("adv output table overflow");
	if (!vw_alive(0)) viol("server-exited", "server loop ended after %s", L->name);
	return 0;
}

static void key(uint64_t k[2])
{
	uint64_t w[2]; h128 h;
	vw_hash_world(w, VW_HASH_COARSE_TIME);
	h128_init(&h); h128_update(&h, w, sizeof w);
	/* of the model only what can still matter: the 16 most recent entries */
	int from = M.n > 16 ? M.n - 16 : 0;
	for (int i = from; i < M.n; i++) h128_update(&h, &M.e[i], sizeof M.e[i]);
	int cnt = M.n - from; h128_update(&h, &cnt, sizeof cnt);
	h128_final(&h, k);
}
static const char *lname(int l) { return LT[l].name; }

static const int PREFILL[6] = { 0, 14, 15, 16, 17, 31 };
static void boot(int st)
{
	struct w_server_cfg c = { .topdomain = DOM, .password = "x", .my_ip = "10.0.0.1", .netmask = 29, .mtu = 1130, .check_ip = 1, .bind_port = BINDPORT, .srand_seed = 1 };
	vw_init();
	IMG_REGISTER(s);
	W.hooks.on_sanitizer = on_san;
	W.hooks.snap_regions = snap_regions;
	memset(&M, 0, sizeof M);
	adv_boot(&c, 1, 1);
	/* filler queries from a fourth requester with distinct ids */
	for (int k = 0; k < PREFILL[st]; k++) {
		uint8_t pkt[700];
		int plen = mk_fwd_query(pkt, 100 + k, k & 1);
		adv_clear();
		adv_send(&REQ[3], RLENS[3], pkt, plen);
		M.e[M.n].r = 3; M.e[M.n].id = 100 + k; M.n++;
	}
	adv_clear();
}

static eb_ops OPS;
static void job(int j)
{
	int st = j / nlt, l0 = j % nlt;
	boot(st);
	XC.path[0].cp = 0; XC.path[0].alt = l0; XC.npath = 1; XC.depth = 1;
	if (apply(l0) == 0) {
		uint64_t k[2];
		__atomic_fetch_add(&XS->transitions, 1, __ATOMIC_RELAXED);
		key(k);
		if (xp_visit(k, 1)) eb_dfs_snap(&OPS, 1);
	}
	__atomic_fetch_add(&XS->execs, 1, __ATOMIC_RELAXED);
}
static void describe_job(int j, char *b, size_t n) { snprintf(b, n, "ring pre-filled with %d forwarded queries; first letter %s", PREFILL[j / nlt], LT[j % nlt].name); }

int main(int argc, char **argv)
{
	hc_args a = hc_parse(argc, argv, "fwd");
	int depth = 0;
	for (int i = 0; i < a.nextra; i++) if (!strcmp(a.extra[i], "--depth") && i + 1 < a.nextra) depth = atoi(a.extra[++i]);
	vw_mkaddr(&REQ[0], &RLENS[0], "198.51.100.7", 4000); vw_mkaddr(&REQ[1], &RLENS[1], "198.51.100.8", 4001);
	vw_mkaddr6(&REQ[2], &RLENS[2], "2001:db8::9", 4002); vw_mkaddr(&REQ[3], &RLENS[3], "198.51.100.10", 4003);
	vw_mkaddr(&LOCALDNS, &RLEN, "127.0.0.1", BINDPORT);
	for (int r = 0; r < 3; r++) for (int id = 0; id < 4; id++) addl(L_Q, r, id, (r + id) & 1, "Q(%s,id%d,%s)", REQN[r], id, QN[(r + id) & 1].name);
	{ int n = 0; for (int l = 0; l < 4; l++) { int ll = l < 3 ? 63 : 61; memset(LONGNAME + n, 'a' + l, ll); n += ll; LONGNAME[n++] = l < 3 ? '.' : 0; } }   /* 63.63.63.61 = 253 characters */
	addl(L_Q, 0, 1, 2, "Q(A,id1,253-character name)"); addl(L_Q, 2, 2, 2, "Q(C(IPv6),id2,253-character name)");
	addl(L_Q, 1, 3, 3, "Q(B,id3,root name NS)");
	for (int id = 0; id < 5; id++) addl(L_R, -1, id, 0, "R(id%d)", id);
	addl(L_R, -1, 100, 0, "R(id100)"); addl(L_R, -1, 115, 0, "R(id115)");
	/* replies that are only a header (REFUSED/FORMERR without the question: 12 bytes), and runts that do not even hold a header */
	for (int id = 0; id < 3; id++) addl(L_R, -1, id, 1, "Rheader-only(id%d)", id);
	addl(L_R, -1, 100, 1, "Rheader-only(id100)");
	addl(L_R, -1, 0, 2, "Rrunt(5 bytes, id0)"); addl(L_R, -1, 2, 2, "Rrunt(5 bytes, id2)");
	addl(L_T, 0, 0, 0, "T(tunnel-domain query)");
	OPS.nletters = nlt; OPS.apply = apply; OPS.key = key; OPS.name = lname;
	OPS.maxdepth = depth ? depth : a.thorough ? 7 : 5;
	xp_describe_job = describe_job;
	xp_init(hc_san_as ? hc_san_as : "C20", a.tier, a.thorough ? 1 << 26 : 1 << 25, a.budget_s);
	xp_guard(hc_san_as, &W.cur, 1);
	if (a.replay) { int j = xp_load_replay(a.replay); boot(j / nlt); eb_replay(&OPS, a.verbose); return 0; }
	hc_quiet();
	xp_run_jobs(6 * nlt, job, a.workers);
	{ char names[700] = ""; for (int i = 0; i < nlt; i++) { strcat(names, LT[i].name); strcat(names, i + 1 < nlt ? " | " : ""); } xp_sample("alphabet (%d letters): %s", nlt, names); }
	xp_sample("start states: ring empty, pre-filled with 14 / 15 / 16 / 17 / 31 distinct-id queries from requester D (ids 100..)");
	char extra[400];
	snprintf(extra, sizeof extra, "\"letters\":%d,\"depth\":%d,\"start_states\":6,\"letters_applied\":%ld,\"queries_forwarded_ok\":%ld,\"replies_routed_ok\":%ld,\"replies_dropped_ok\":%ld,\"replies_with_ambiguous_id\":%ld,\"tunnel_queries\":%ld,\"sanitizer_notes\":%ld",
		 nlt, OPS.maxdepth, XS->counters[K_LETTERS], XS->counters[K_FWD], XS->counters[K_REPLIES_ROUTED], XS->counters[K_REPLIES_DROPPED], XS->counters[K_AMBIG], XS->counters[K_TUNNEL], XS->counters[K_SAN]);
	xp_print_stats(extra);
	return 0;
}
