/* E-A harness with two real clients (images ca and cb) behind one real server: client-to-client forwarding. */
#define EA_TWO 1
#include "ea.c"
