/* C17: tunnel domain validation and query matching follow label boundaries exactly.
 * E-C: exhaustive strings over a small alphabet through check_topdomain / query_datalen vs a
 * reference written from the property text; E-B-lite: the real server loop's dispatch
 * (tunnel handling vs forwarding) for every name up to a length bound. */
#include <ctype.h>
#include "harness_common.h"
#include "vw.h"
#include "explore.h"
#include "images.h"
#include "refdns.h"
#include "adv.h"

IMG_SERVER(s)

static int thorough;
static const char ALPHA[] = "aAb-.*0";
enum { K_VALID_CASES, K_MATCH_CASES, K_MATCHES, K_ACCEPTED, K_DISPATCH, K_DISPATCH_TUNNEL, K_LONG, K_PAIRS };

/* ---- reference validator, from the property statement ---- */
/* returns 1 accept, 0 reject, -1 = statement does not decide (wildcard label counted or not) */
static int ref_valid(const char *s, int n, int allow_wild)
{
	if (n < 3 || n > 128) return 0;
	int labels = 0, ll = 0, wild = 0;
	for (int i = 0; i < n; i++) {
		unsigned char c = s[i];
		if (c == '.') {
			if (ll == 0) return 0;           /* empty label (leading dot or "..") */
			if (ll > 63) return 0;
			labels++; ll = 0;
			continue;
		}
		if (c == '*') {
			/* only as the whole first label, server only */
			if (!allow_wild || i != 0 || n < 2 || s[1] != '.') return 0;
			wild = 1; ll++;
			continue;
		}
		if (!((c >= 'a' && c <= 'z') || (c >= 'A' && c <= 'Z') || (c >= '0' && c <= '9') || c == '-')) return 0;
		ll++;
	}
	if (ll == 0) return 0;                           /* trailing dot = empty last label */
	if (ll > 63) return 0;
	labels++;
	if (labels < 2) return 0;
	if (wild && labels == 2) return -1;              /* "*.x": two labels only if the wildcard counts */
	return 1;
}

/* ---- reference matcher ---- */
static int eq_ci(const char *a, const char *b, int n)
{
	for (int i = 0; i < n; i++) if (tolower((unsigned char)a[i]) != tolower((unsigned char)b[i])) return 0;
	return 1;
}

/* returns data length or -1 */
static int ref_match(const char *q, int ql, const char *d, int dl)
{
	if (d[0] == '*' && d[1] == '.') {
		const char *rest = d + 1;             /* ".rest" */
		int rl = dl - 1;
		if (ql < rl + 1) return -1;
		if (!eq_ci(q + ql - rl, rest, rl)) return -1;
		int e = ql - rl;                     /* end of wildcard label L (exclusive) */
		int b = e;
		while (b > 0 && q[b - 1] != '.') b--;
		if (e - b < 1) return -1;            /* empty label */
		for (int i = b; i < e; i++) if (q[i] == '*') return -1;
		return b;
	}
	if (ql < dl) return -1;
	if (!eq_ci(q + ql - dl, d, dl)) return -1;
	if (ql == dl) return 0;
	if (q[ql - dl - 1] != '.') return -1;
	return ql - dl;
}

static void viol(const char *what, const char *fmt, ...)
{
	char detail[300], sig[100];
	va_list ap; va_start(ap, fmt); vsnprintf(detail, sizeof detail, fmt, ap); va_end(ap);
	snprintf(sig, sizeof sig, "C17:%s", what);
	xp_violation(sig, "%s", detail);
}

static void check_valid(const char *s, int n)
{
	char buf[300];
	memcpy(buf, s, n); buf[n] = 0;
	for (int aw = 0; aw <= 1; aw++) {
		char *em = NULL;
		int r = s_check_topdomain(buf, aw, &em);
		int want = ref_valid(buf, n, aw);
		xp_count(K_VALID_CASES, 1);
		if (r == 0) xp_count(K_ACCEPTED, 1);
		if (want < 0) continue;
		if ((r == 0) != (want == 1))
			viol(want ? "valid-domain-rejected" : "invalid-domain-accepted", "check_topdomain(\"%s\", wildcard=%d) = %d (%s), reference says %s",
			     n > 140 ? "(long)" : buf, aw, r, em ? em : "", want ? "accept" : "reject");
		xp_outcome(0x1000 + (r ? 1 : 0) * 2 + aw + 16 * (em ? (uint64_t)(uintptr_t)em : 0));
	}
}

static void check_match(const char *q, int ql, const char *d, int dl)
{
	int r = s_query_datalen(q, d);
	int want = ref_match(q, ql, d, dl);
	xp_count(K_MATCH_CASES, 1);
	if (r >= 0) { xp_count(K_MATCHES, 1); xp_outcome(0x3000 + (uint64_t)(d[0] == '*') * 512 + (uint64_t)(uintptr_t)d * 1024 + r); }
	if (r != want) {
		char sig[64];
		snprintf(sig, sizeof sig, r < 0 ? "tunnel-name-not-matched" : want < 0 ? "foreign-name-matched" : "wrong-data-length");
		viol(sig, "query_datalen(\"%s\", \"%s\") = %d, reference %d", ql > 100 ? "(long)" : q, d, r, want);
	}
}

static const char *DOMAINS[] = { "a.b", "a.bb", "ab.b", "a-b.a", "0.a.b", "A.b", "a.B", "b.a", "aa.a", "a.b.a",
	"*.a.b", "*.b.a", "*.a-b.b", "*.A.b", "*.0.a" };
#define NDOM ((int)(sizeof DOMAINS / sizeof DOMAINS[0]))

/* enumerate all strings of length n over ALPHA starting with first char index f (job split) */
static void enum_strings(int n, int f, void (*fn)(const char *, int))
{
	char s[16];
	int idx[16];
	if (n == 0) { if (f == 0) fn("", 0); return; }
	memset(idx, 0, sizeof idx);
	idx[0] = f;
	for (;;) {
		for (int i = 0; i < n; i++) s[i] = ALPHA[idx[i]];
		s[n] = 0;
		fn(s, n);
		int k = n - 1;
		while (k >= 1 && ++idx[k] == 7) { idx[k] = 0; k--; }
		if (k < 1) break;
	}
}

static void fn_valid(const char *s, int n) { check_valid(s, n); }
static void fn_match(const char *s, int n)
{
	if (strstr(s, "..")) return;
	for (int d = 0; d < NDOM; d++) check_match(s, n, DOMAINS[d], strlen(DOMAINS[d]));
	if (n <= 3) xp_outcome(0x2000 + n);
}

/* boundary family for validation */
static void boundary_valid(void)
{
	static const int L[] = { 1, 62, 63, 64 };
	char s[400];
	/* compositions of label lengths from L, up to 4 labels */
	for (int nl = 1; nl <= 4; nl++) {
		int c[4] = { 0, 0, 0, 0 };
		for (;;) {
			int n = 0;
			for (int i = 0; i < nl; i++) { if (i) s[n++] = '.'; memset(s + n, 'a' + i, L[c[i]]); n += L[c[i]]; }
			check_valid(s, n);
			/* with wildcard prefix, leading/trailing/double dot variants */
			memmove(s + 2, s, n); s[0] = '*'; s[1] = '.'; check_valid(s, n + 2);
			memmove(s, s + 2, n);
			memmove(s + 1, s, n); s[0] = '.'; check_valid(s, n + 1); memmove(s, s + 1, n);
			s[n] = '.'; check_valid(s, n + 1);
			int k = nl - 1;
			while (k >= 0 && ++c[k] == 4) { c[k] = 0; k--; }
			if (k < 0) break;
		}
	}
	/* total length 126..130 made of 63-char labels and one adjustable label */
	for (int total = 2; total <= 131; total++) {
		int n = 0, rem = total;
		while (rem > 0) {
			int l = rem > 64 ? 63 : rem;        /* last label takes the rest (may be 64 -> invalid) */
			if (n) { s[n++] = '.'; rem--; if (rem <= 0) break; l = rem > 64 ? 63 : rem; }
			memset(s + n, 'x', l); n += l; rem -= l;
		}
		check_valid(s, n);
	}
	/* every byte 1..255 at one position, a star at every position */
	for (int v = 1; v < 256; v++) { snprintf(s, sizeof s, "ab.cd"); s[1] = v; check_valid(s, 5); s[1] = 'b'; s[3] = v; check_valid(s, 5); }
	for (int p = 0; p < 7; p++) { snprintf(s, sizeof s, "abc.def"); s[p] = '*'; check_valid(s, 7); }
	xp_sample("validation boundary family: label lengths {1,62,63,64} in 1..4 labels, totals 2..131, every byte value, star at every position");
}

/* long names: totals 253..255, domain suffix with preceding char in {., a, *} */
static void long_match(void)
{
	char q[300];
	for (int d = 0; d < NDOM; d++) {
		const char *dom = DOMAINS[d];
		int dl = strlen(dom);
		for (int total = 250; total <= 255; total++)
			for (int pc = 0; pc < 3; pc++)
				for (int up = 0; up < 2; up++) {
					/* data part: labels of 63 'x' separated by dots, then preceding char, then domain (or for
					 * wildcard domains: a concrete label in place of '*') */
					char conc[80];
					if (dom[0] == '*') snprintf(conc, sizeof conc, "w%s", dom + 1); else snprintf(conc, sizeof conc, "%s", dom);
					if (up) for (char *p = conc; *p; p++) *p = toupper((unsigned char)*p);
					int cl = strlen(conc);
					int datalen = total - cl;
					if (datalen < 1) continue;
					int n = 0;
					for (int i = 0; i < datalen - 1; i++) q[n++] = ((i % 64) == 63) ? '.' : 'x';
					if (n > 0 && q[n - 1] == '.') q[n - 1] = 'y';
					q[n++] = pc == 0 ? '.' : pc == 1 ? 'a' : '*';
					memcpy(q + n, conc, cl); n += cl; q[n] = 0;
					if (strstr(q, "..")) continue;
					check_match(q, n, dom, dl);
					xp_count(K_LONG, 1);
				}
	}
	xp_sample("long names: total 250..255, domain (upper/lower) preceded by '.', 'a' or '*', data labels of 63");
}


/* every byte value at every position: names that match (and near misses) with one character replaced by each byte 1..255.
 * The small alphabet above cannot tell a comparison that looks at the characters from one that looks at some of their
 * bits only (seeded C17-h: bit 5 ignored for every byte, so 0x0e passes for '.', 0x0d for '-', 0x10 for '0'). */
static const char *BYTE_DOMAINS[] = { "a-b.a", "0.a.b", "t9.example-0.com", "*.a-b.b", "*.0.a", "A.b", "*.Z9.org" };
static void byte_match(void)
{
	char base[3][80], q[80];
	long n = 0;
	for (unsigned d = 0; d < sizeof BYTE_DOMAINS / sizeof BYTE_DOMAINS[0]; d++) {
		const char *dom = BYTE_DOMAINS[d];
		int dl = strlen(dom);
		char conc[64];
		if (dom[0] == '*') snprintf(conc, sizeof conc, "w%s", dom + 1); else snprintf(conc, sizeof conc, "%s", dom);
		snprintf(base[0], sizeof base[0], "xy.%s", conc);      /* data + domain */
		snprintf(base[1], sizeof base[1], "%s", conc);         /* the domain itself */
		snprintf(base[2], sizeof base[2], "x0-%s", conc);      /* no label boundary in front of the domain */
		for (int b = 0; b < 3; b++) {
			int bl = strlen(base[b]);
			for (int p = 0; p < bl; p++)
				for (int c = 1; c < 256; c++) {
					memcpy(q, base[b], bl + 1);
					q[p] = (char)c;
					if (strstr(q, "..")) continue;
					check_match(q, bl, dom, dl);
					n++;
				}
		}
	}
	xp_count(K_LONG, n);
	xp_sample("byte family: 3 base names x %d domains, each position replaced by every byte 1..255 (%ld names)", (int)(sizeof BYTE_DOMAINS / sizeof BYTE_DOMAINS[0]), n);
}

/* ---- dispatch through the real server loop: forwarded iff not matched ---- */
static struct sockaddr_storage peer; static socklen_t peerlen;

static void dispatch_one(const char *q, int ql, const char *dom)
{
	uint8_t wire[300], pkt[600];
	int wl = rd_dotted_to_wire(q, ql, wire, sizeof wire);
	if (wl < 0) return;                      /* not representable as a DNS name (empty label) */
	int pl = rd_mkquery(pkt, sizeof pkt, 0x1234, wire, wl, 10 /* NULL */, 0);
	adv_clear();
	adv_send(&peer, peerlen, pkt, pl);
	int forwarded = 0, answered = 0;
	for (int i = 0; i < adv_nout; i++) { if (adv_outs[i].kind == 2) forwarded++; if (adv_outs[i].kind == 0) answered++; }
	int want = ref_match(q, ql, dom, strlen(dom));
	xp_count(K_DISPATCH, 1);
	if (want >= 0) xp_count(K_DISPATCH_TUNNEL, 1);
	if (want < 0 && !forwarded) viol("foreign-name-not-forwarded", "server did not forward \"%s\" (domain %s)", q, dom);
	if (want < 0 && answered) viol("foreign-name-handled-as-tunnel", "server answered \"%s\" itself although it is outside %s", q, dom);
	if (want >= 0 && forwarded) viol("tunnel-name-forwarded", "server forwarded \"%s\" although it is inside %s", q, dom);
}

static const char *cur_dom;
static void fn_dispatch(const char *s, int n)
{
	if (strstr(s, "..") || n == 0 || s[0] == '.' || s[n - 1] == '.') return;
	dispatch_one(s, n, cur_dom);
}

/* ---- histories of two calls: the matcher is used as a function of (name, domain); whatever an implementation remembers from
 * the previous call must not change the next result.  For each domain every name of length <= P1 (and every *matching* name
 * one longer) is followed by every name of length <= P2. ---- */
static const char *PAIR_DOMAINS[] = { "*.a", "*.b.a", "*.a.b", "a.b", "A.b", "ab.b", "*.0.a", "a-b.a" };
#define NPD ((int)(sizeof PAIR_DOMAINS / sizeof PAIR_DOMAINS[0]))
static char (*PNAMES)[8]; static int npnames, npn_cap;
static void fn_collect(const char *s, int n) { if (strstr(s, "..")) return; if (npnames == npn_cap) { npn_cap = npn_cap ? npn_cap * 2 : 4096; PNAMES = realloc(PNAMES, (size_t)npn_cap * 8); } memcpy(PNAMES[npnames++], s, n + 1); }
static void pairs_job(int d)
{
	const char *dom = PAIR_DOMAINS[d]; int dl = strlen(dom);
	int p1 = 4, p2 = thorough ? 6 : 5;
	npnames = 0;
	for (int n = 0; n <= p2; n++) for (int f = 0; f < 7; f++) enum_strings(n, f, fn_collect);
	long firsts = 0;
	for (int i = 0; i < npnames; i++) {
		int l1 = strlen(PNAMES[i]);
		int m1 = ref_match(PNAMES[i], l1, dom, dl);
		if (l1 > p1 && !(l1 == p1 + 1 && m1 >= 0)) continue;
		firsts++;
		for (int k = 0; k < npnames; k++) {
			int r1 = s_query_datalen(PNAMES[i], dom);
			int r2 = s_query_datalen(PNAMES[k], dom);
			int l2 = strlen(PNAMES[k]);
			int m2 = ref_match(PNAMES[k], l2, dom, dl);
			xp_count(K_PAIRS, 1);
			if (r1 != m1 || r2 != m2) {
				viol(r2 != m2 ? (r2 < 0 ? "tunnel-name-not-matched-after-another-name" : m2 < 0 ? "foreign-name-matched-after-another-name" : "wrong-data-length-after-another-name") : "result-depends-on-earlier-calls",
				     "query_datalen(\"%s\", \"%s\") = %d (reference %d), then query_datalen(\"%s\", \"%s\") = %d (reference %d)", PNAMES[i], dom, r1, m1, PNAMES[k], dom, r2, m2);
				return;
			}
		}
	}
	xp_outcome(0x5000 + d);
	if (d == 0) xp_sample("histories of two calls: domain %s, %ld first names (all of length <= %d, matching ones of length %d) x %d second names (length <= %d); %d domains", dom, firsts, p1, p1 + 1, npnames, p2, NPD);
}

/* jobs: 0..6 validation by first char (len<=7), 7 boundary; 8..14 matching by first char; 15 long; 16.. dispatch per domain; then two-call histories per domain */
static void boot_failed(const struct w_server_cfg *c, int state)
{
	viol("valid-domain-rejected", "the server does not start with the valid tunnel domain %s (start-up ended in state %d)", c->topdomain, state);
}

static void job(int j)
{
	int vmax = 7, mmax = thorough ? 8 : 7;
	if (j < 7) {
		for (int n = 0; n <= vmax; n++) enum_strings(n, j, fn_valid);
		if (j == 0) xp_sample("validation: all strings of length 0..%d over {a,A,b,-,.,*,0}, wildcard allowed and not", vmax);
	} else if (j == 7) boundary_valid();
	else if (j < 15) {
		for (int n = 0; n <= mmax; n++) enum_strings(n, j - 8, fn_match);
		if (j == 8) xp_sample("matching: all names of length 0..%d over {a,A,b,-,.,*,0} without '..' x %d domains, e.g. query_datalen(\"a.A.b\", \"*.a.b\")", mmax, NDOM);
	} else if (j == 15) { long_match(); byte_match(); }
	else if (j >= 16 + NDOM) pairs_job(j - 16 - NDOM);
	else {
		int d = j - 16;
		struct w_server_cfg c = { .topdomain = DOMAINS[d], .password = "pw", .my_ip = "10.0.0.1", .netmask = 29,
			.mtu = 1130, .check_ip = 1, .bind_port = 5353, .srand_seed = 1 };
		vw_init();
		W.hooks.on_sanitizer = NULL;
		adv_boot_failed = boot_failed;
		adv_boot(&c, 0, 1);
		if (!vw_alive(0) || W.proc[0].state != VW_P_SELECT) return;
		vw_mkaddr(&peer, &peerlen, "198.51.100.9", 3333);
		cur_dom = DOMAINS[d];
		int dmax = thorough ? 6 : 5;
		for (int n = 1; n <= dmax; n++) for (int f = 0; f < 7; f++) enum_strings(n, f, fn_dispatch);
		if (d == 10) xp_sample("dispatch: real server loop with -b, every name of length 1..%d under domain %s: forwarded iff outside", dmax, DOMAINS[d]);
	}
}

int main(int argc, char **argv)
{
	hc_args a = hc_parse(argc, argv, "C17");
	thorough = a.thorough;
	vw_init();
	xp_init("C17", a.tier, 1024, a.budget_s);
	xp_guard("!C17", NULL, 0);
	if (a.replay) { job(xp_load_replay(a.replay)); return 0; }
	hc_quiet();
	xp_run_jobs(16 + NDOM + NPD, job, a.workers);
	char extra[300];
	snprintf(extra, sizeof extra, "\"valid_cases\":%ld,\"match_cases\":%ld,\"matches\":%ld,\"accepted\":%ld,\"dispatch_cases\":%ld,\"dispatch_tunnel\":%ld,\"long_cases\":%ld,\"two_call_histories\":%ld",
		 XS->counters[K_VALID_CASES], XS->counters[K_MATCH_CASES], XS->counters[K_MATCHES], XS->counters[K_ACCEPTED],
		 XS->counters[K_DISPATCH], XS->counters[K_DISPATCH_TUNNEL], XS->counters[K_LONG], XS->counters[K_PAIRS]);
	xp_print_stats(extra);
	return 0;
}
