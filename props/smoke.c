/* Smoke test of the engine: real client handshake against real server, one packet each way. */
#include <stdio.h>
#include <stdlib.h>
#include <string.h>
#include <unistd.h>
#include <sys/wait.h>
#include "vw.h"
#include "explore.h"
#include "images.h"

IMG_SERVER(s)
IMG_CLIENT(ca)

static int srv_sock, cli_sock, srv_tun, cli_tun;
static int hs_result = -99;
static const char *qtype = "", *downenc = "";
static int raw_mode = 0;

static void on_send(int d)
{
	int si = vw_sock_find(&W.dg[d].dst);
	if (si < 0) { if (W.verbose) fprintf(stderr, "[net] no route to %s\n", vw_addr_str(&W.dg[d].dst)); vw_dgram_free(d); return; }
	vw_deliver_at(d, si, W.now + 3000);
}

static void on_tun_write(int proc, const unsigned char *data, int len)
{
	printf("t=%.3f proc %d wrote %d bytes to tun: %02x%02x%02x%02x ... %02x\n", W.now / 1e6, proc, len,
	       data[0], data[1], data[2], data[3], data[len - 1]);
}

static void server_main(void *arg)
{
	struct w_server_cfg c = { .topdomain = "t.example.com", .password = "secret", .my_ip = "10.0.0.1",
		.netmask = 29, .mtu = 1130, .check_ip = 1, .srand_seed = 7 };
	s_w_tun_set_ifname("dns0");
	s_w_init(&c);
	s_w_run(10, 11, -1, 0);
}

static void client_main(void *arg)
{
	struct w_client_cfg c;
	memset(&c, 0, sizeof c);
	socklen_t l;
	vw_mkaddr(&c.nameserv, &l, "192.0.2.1", 53);
	c.nameserv_len = l;
	c.topdomain = "t.example.com"; c.password = "secret";
	c.qtype = qtype; c.downenc = downenc;
	c.selecttimeout = 4; c.lazymode = 1; c.hostname_maxlen = 255; c.srand_seed = 99;
	ca_w_tun_set_ifname("dns0");
	ca_w_setup(&c);
	hs_result = ca_w_handshake(21, raw_mode, 1, 3072);
	printf("t=%.3f handshake result %d qtype %d downenc '%c' dataenc %s lazymode %d conn %d\n", W.now / 1e6, hs_result,
	       ca_w_qtype(), ca_w_downenc(), ca_w_dataenc_name(), ca_w_lazymode(), ca_w_conn());
	if (hs_result == 0) ca_w_tunnel(20, 21);
}

static int mkpkt(unsigned char *p, int iplen, const char *dst, int tag)
{
	memset(p, 0, 4 + iplen);
	p[2] = 0x08;
	p[4] = 0x45;
	unsigned x = 88172645u + tag;
	for (int i = 5; i < 4 + iplen; i++) { x ^= x << 13; x ^= x >> 17; x ^= x << 5; p[i] = x; }
	struct in_addr a; inet_pton(AF_INET, dst, &a);
	if (iplen >= 20) memcpy(p + 4 + 16, &a, 4);
	return 4 + iplen;
}

int main(int argc, char **argv)
{
	for (int i = 1; i < argc; i++) {
		if (!strcmp(argv[i], "-v")) W.verbose = 1;
	}
	int verbose = W.verbose;
	vw_init();
	W.verbose = verbose;
	for (int i = 1; i < argc; i++) {
		if (!strcmp(argv[i], "-T")) qtype = argv[++i];
		else if (!strcmp(argv[i], "-O")) downenc = argv[++i];
		else if (!strcmp(argv[i], "-r")) raw_mode = 1;
	}
	IMG_REGISTER(s); IMG_REGISTER(ca);
	W.hooks.on_send = on_send;
	W.hooks.on_tun_write = on_tun_write;
	srv_sock = vw_sock_open(0, 11, "192.0.2.1", 53);
	cli_sock = vw_sock_open(1, 21, "198.51.100.7", 40000);
	srv_tun = vw_tun_open(0, 10);
	cli_tun = vw_tun_open(1, 20);
	vw_spawn(0, server_main, NULL);
	vw_spawn(1, client_main, NULL);
	/* run handshake */
	while (hs_result == -99 && W.now < 200 * 1000000LL && vw_step()) ;
	printf("after handshake: now=%.3f steps=%ld sanitizer=%d\n", W.now / 1e6, W.nevents, W.sanitizer_reports);
	struct tun_user *u = s_w_users();
	printf("server users: %d; user0 active %d auth %d fragsize %d lazy %d downenc %c enc %s\n", s_w_created_users(),
	       u[0].active, u[0].authenticated, u[0].fragsize, u[0].lazy, u[0].downenc, u[0].encoder ? u[0].encoder->name : "?");
	for (int i = 0; i < W.proc[1].nsys; i++) printf("client system(): %s\n", W.proc[1].sys[i]);
	unsigned char pkt[2048];
	int n = mkpkt(pkt, 1100, "10.0.0.1", 1);
	vw_tun_offer_at(cli_tun, W.now + 100000, pkt, n, 1);
	n = mkpkt(pkt, 700, "10.0.0.2", 2);
	vw_tun_offer_at(srv_tun, W.now + 150000, pkt, n, 2);
	vw_run_until(W.now + 10 * 1000000LL);
	{
		double t1 = xp_now(); int nf = 200;
		for (int i = 0; i < nf; i++) { pid_t p = fork(); if (p == 0) _exit(0); int st; waitpid(p, &st, 0); }
		printf("fork+wait: %.3f ms\n", (xp_now() - t1) * 1000 / nf);
	}
	uint64_t k[2];
	double t0 = xp_now();
	for (int i = 0; i < 100; i++) vw_hash_world(k, 1);
	printf("hash %016lx%016lx  %.3f ms per hash\n", k[0], k[1], (xp_now() - t0) * 10);
	printf("done: now=%.3f steps=%ld sanitizer=%d client state %d server state %d\n", W.now / 1e6, W.nevents,
	       W.sanitizer_reports, W.proc[1].state, W.proc[0].state);
	return 0;
}
