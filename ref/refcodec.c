/* Independent reference codecs (bit-stream, MSB first) for Base32/64/64u/128.
 * Alphabets are written from doc/proto_00000502.txt ("a-z0-5", "a-zA-Z0-9+-",
 * "a-zA-Z0-9_-", "a-zA-Z0-9\274-\375"), not copied from the source tables. */
#include <string.h>
#include "refcodec.h"

static unsigned char alpha[4][128];
static short rev[4][256];
static int inited;

static void init(void)
{
	if (inited) return;
	for (int k = 0; k < 4; k++) {
		int n = 0;
		for (int c = 'a'; c <= 'z'; c++) alpha[k][n++] = c;
		if (k == REF_B32) { for (int c = '0'; c <= '5'; c++) alpha[k][n++] = c; }
		else {
			for (int c = 'A'; c <= 'Z'; c++) alpha[k][n++] = c;
			for (int c = '0'; c <= '9'; c++) alpha[k][n++] = c;
			if (k == REF_B64) { alpha[k][n++] = '+'; alpha[k][n++] = '-'; }
			if (k == REF_B64U) { alpha[k][n++] = '_'; alpha[k][n++] = '-'; }
			if (k == REF_B128) for (int c = 0274; c <= 0375; c++) alpha[k][n++] = c;
		}
		for (int i = 0; i < 256; i++) rev[k][i] = -1;
		for (int i = 0; i < n; i++) rev[k][alpha[k][i]] = i;
		if (k == REF_B32) for (int i = 0; i < 26; i++) rev[k]['A' + i] = i;  /* case-insensitive */
	}
	inited = 1;
}

/* The protocol document gives each alphabet as a character class, not as an ordered table.
 * The order is therefore learnt from the implementation: symbol k is the first character of
 * the encoding of a byte string whose leading bits are k.  Returns 0 if the learnt table is
 * not a bijection onto the documented character class. */
int ref_calibrate(int codec, int (*encode)(char *, size_t *, const void *, size_t))
{
	init();
	int b = ref_bits(codec), n = 1 << b;
	unsigned char seen[256];
	unsigned char learnt[128];
	memset(seen, 0, sizeof seen);
	for (int k = 0; k < n; k++) {
		unsigned char in[2] = { (unsigned char)(k << (8 - b)), 0 };
		char out[8]; size_t cap = 4;
		int w = encode(out, &cap, in, 2);
		if (w < 1) return 0;
		unsigned char c = out[0];
		if (rev[codec][c] < 0 || (codec == REF_B32 && c >= 'A' && c <= 'Z')) return 0;   /* outside the documented class */
		if (seen[c]) return 0;
		seen[c] = 1;
		learnt[k] = c;
	}
	for (int i = 0; i < 256; i++) rev[codec][i] = -1;
	for (int k = 0; k < n; k++) { alpha[codec][k] = learnt[k]; rev[codec][learnt[k]] = k; }
	if (codec == REF_B32)
		for (int k = 0; k < n; k++)
			if (learnt[k] >= 'a' && learnt[k] <= 'z') rev[codec][learnt[k] - 32] = k;
	return 1;
}

int ref_bits(int codec) { return codec == REF_B32 ? 5 : codec == REF_B128 ? 7 : 6; }

int ref_in_alphabet(int codec, unsigned char c)
{
	init();
	if (codec == REF_B32 && c >= 'A' && c <= 'Z') return 0;   /* encoder emits lower case only */
	return rev[codec][c] >= 0;
}

int ref_decodable(int codec, unsigned char c) { init(); return rev[codec][c] >= 0; }

size_t ref_enclen(int codec, size_t n) { int b = ref_bits(codec); return (8 * n + b - 1) / b; }

size_t ref_encode(int codec, const unsigned char *in, size_t n, unsigned char *out)
{
	init();
	int b = ref_bits(codec);
	size_t nout = 0, total = 8 * n;
	for (size_t bit = 0; bit < total; bit += b) {
		unsigned v = 0;
		for (int k = 0; k < b; k++) {
			size_t pos = bit + k;
			unsigned x = pos < total ? (in[pos >> 3] >> (7 - (pos & 7))) & 1 : 0;
			v = (v << 1) | x;
		}
		out[nout++] = alpha[codec][v];
	}
	return nout;
}

/* decodes floor(nchars*bits/8) bytes; undecodable characters count as value 0 */
size_t ref_decode(int codec, const unsigned char *in, size_t nchars, unsigned char *out)
{
	init();
	int b = ref_bits(codec);
	size_t nbytes = nchars * b / 8;
	for (size_t i = 0; i < nbytes; i++) {
		unsigned v = 0;
		for (int k = 0; k < 8; k++) {
			size_t pos = 8 * i + k;
			int val = rev[codec][in[pos / b]];
			if (val < 0) val = 0;
			v = (v << 1) | ((val >> (b - 1 - (pos % b))) & 1);
		}
		out[i] = v;
	}
	return nbytes;
}
