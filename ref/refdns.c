/* Strict RFC 1035 parser written for the harness (independent of src/dns.c, src/read.c). */
#include <stdio.h>
#include <string.h>
#include <stddef.h>
#include "refdns.h"

#define T_A 1
#define T_NS 2
#define T_CNAME 5
#define T_NULL 10
#define T_MX 15
#define T_TXT 16
#define T_SRV 33
#define T_OPT 41

typedef struct pctx {
	const uint8_t *m; int len;
	uint8_t labelstart[65536 / 8];     /* offsets at which a label (or root) of some name starts */
	char *err;
} pctx;

static int fail(pctx *c, const char *fmt, int a, int b)
{
	snprintf(c->err, 128, fmt, a, b);
	return -1;
}

static void mark(pctx *c, int off) { c->labelstart[off >> 3] |= 1 << (off & 7); }
static int marked(pctx *c, int off) { return c->labelstart[off >> 3] & (1 << (off & 7)); }

/* Parses a name at *pos, advances *pos past its in-place encoding, writes expanded wire form. */
static int name(pctx *c, int *pos, uint8_t *out, int *outlen)
{
	int p = *pos, n = 0, jumped = 0, hops = 0;
	for (;;) {
		if (p >= c->len) return fail(c, "name runs past end of message at %d", p, 0);
		int l = c->m[p];
		if ((l & 0xc0) == 0xc0) {
			if (p + 1 >= c->len) return fail(c, "truncated compression pointer at %d", p, 0);
			int tgt = ((l & 0x3f) << 8) | c->m[p + 1];
			if (tgt >= p) return fail(c, "compression pointer at %d points forward/self (%d)", p, tgt);
			if (!marked(c, tgt)) return fail(c, "compression pointer at %d -> %d is not a label boundary", p, tgt);
			if (!jumped) { *pos = p + 2; jumped = 1; }
			if (++hops > 127) return fail(c, "pointer loop at %d", p, 0);
			p = tgt;
			continue;
		}
		if (l & 0xc0) return fail(c, "reserved label type 0x%02x at %d", l, p);
		if (!jumped) mark(c, p);
		if (l == 0) {
			if (n + 1 > 255) return fail(c, "name longer than 255 bytes at %d", p, 0);
			out[n++] = 0;
			if (!jumped) *pos = p + 1;
			break;
		}
		if (l > 63) return fail(c, "label length %d > 63 at %d", l, p);
		if (p + 1 + l > c->len) return fail(c, "label at %d runs past end of message", p, 0);
		if (n + 1 + l + 1 > 255) return fail(c, "name longer than 255 bytes at %d", p, 0);
		out[n++] = l;
		memcpy(out + n, c->m + p + 1, l);
		n += l;
		p += 1 + l;
	}
	*outlen = n;
	return 0;
}

static int u16(const uint8_t *p) { return (p[0] << 8) | p[1]; }

int rd_parse(const uint8_t *m, int len, rd_msg *o, char *err)
{
	pctx c;
	memset(c.labelstart, 0, (size_t)(len > 0 ? len : 0) / 8 + 1);
	c.m = m; c.len = len; c.err = err;
	err[0] = 0;
	memset(o, 0, offsetof(rd_msg, rr));
	if (len < 12) return fail(&c, "message shorter than header (%d)", len, 0);
	if (len > 65535) return fail(&c, "message too long", 0, 0);
	o->id = u16(m);
	o->qr = m[2] >> 7; o->opcode = (m[2] >> 3) & 15; o->aa = (m[2] >> 2) & 1; o->tc = (m[2] >> 1) & 1; o->rd = m[2] & 1;
	o->ra = m[3] >> 7; o->rcode = m[3] & 15;
	if (m[3] & 0x70) return fail(&c, "Z bits set (0x%02x)", m[3], 0);
	o->qd = u16(m + 4); o->an = u16(m + 6); o->ns = u16(m + 8); o->ar = u16(m + 10);
	int pos = 12;
	if (o->qd != 1) return fail(&c, "QDCOUNT %d (iodine always emits exactly one question)", o->qd, 0);
	o->qname_off = pos;
	if (name(&c, &pos, o->qname, &o->qnamelen)) return -1;
	if (pos + 4 > len) return fail(&c, "question truncated at %d", pos, 0);
	o->qtype = u16(m + pos); o->qclass = u16(m + pos + 2);
	pos += 4;
	int counts[3] = { o->an, o->ns, o->ar };
	for (int sec = 0; sec < 3; sec++) {
		for (int i = 0; i < counts[sec]; i++) {
			if (o->nrr >= RD_MAXRR) return fail(&c, "too many records for the checker", 0, 0);
			rd_rr *r = &o->rr[o->nrr];
			memset(r, 0, sizeof *r);
			r->section = sec + 1;
			if (pos >= len) return fail(&c, "section %d: record %d missing (count says more records than present)", sec + 1, i);
			if (name(&c, &pos, r->name, &r->namelen)) return -1;
			if (pos + 10 > len) return fail(&c, "record header truncated at %d", pos, 0);
			r->type = u16(m + pos); r->class_ = u16(m + pos + 2);
			r->ttl = ((uint32_t)u16(m + pos + 4) << 16) | u16(m + pos + 6);
			r->rdlen = u16(m + pos + 8);
			pos += 10;
			r->rdoff = pos;
			if (pos + r->rdlen > len) return fail(&c, "RDLENGTH %d at %d exceeds message", r->rdlen, pos);
			int end = pos + r->rdlen;
			switch (r->type) {
			case T_A:
				if (r->rdlen != 4) return fail(&c, "A record with RDLENGTH %d", r->rdlen, 0);
				break;
			case T_NS: case T_CNAME: {
				int p2 = pos;
				if (name(&c, &p2, r->target, &r->targetlen)) return -1;
				if (p2 != end) return fail(&c, "RDLENGTH %d does not match name size %d", r->rdlen, p2 - pos);
				break;
			}
			case T_MX: case T_SRV: {
				int hdr = r->type == T_MX ? 2 : 6;
				if (r->rdlen < hdr + 1) return fail(&c, "MX/SRV RDATA too short (%d)", r->rdlen, 0);
				r->pref = u16(m + pos);
				int p2 = pos + hdr;
				if (name(&c, &p2, r->target, &r->targetlen)) return -1;
				if (p2 != end) return fail(&c, "RDLENGTH %d does not match preference+name size %d", r->rdlen, p2 - pos);
				break;
			}
			case T_TXT: {
				int p2 = pos;
				if (r->rdlen < 1) return fail(&c, "TXT with empty RDATA", 0, 0);
				while (p2 < end) {
					int l = m[p2];
					if (p2 + 1 + l > end) return fail(&c, "TXT string at %d (len %d) overruns RDATA", p2, l);
					p2 += 1 + l;
				}
				break;
			}
			case T_OPT:
				if (sec != 2) return fail(&c, "OPT record outside additional section (%d)", sec + 1, 0);
				if (r->namelen != 1) return fail(&c, "OPT owner name is not root", 0, 0);
				break;
			default:
				break;
			}
			pos = end;
			o->nrr++;
		}
	}
	if (pos != len) return fail(&c, "%d trailing bytes after last record (parsed %d)", len - pos, pos);
	return 0;
}

int rd_name_to_dotted(const uint8_t *w, int wl, char *out, int outsz)
{
	int p = 0, n = 0;
	while (p < wl && w[p]) {
		int l = w[p];
		if (n && n < outsz - 1) out[n++] = '.';
		for (int i = 0; i < l && n < outsz - 1; i++) out[n++] = w[p + 1 + i];
		p += 1 + l;
	}
	out[n] = 0;
	return n;
}

int rd_dotted_to_wire(const char *d, int dl, uint8_t *out, int outsz)
{
	int n = 0, i = 0;
	while (i < dl) {
		int j = i;
		while (j < dl && d[j] != '.') j++;
		int l = j - i;
		if (l < 1 || l > 63 || n + 1 + l + 1 > outsz) return -1;
		out[n++] = l;
		memcpy(out + n, d + i, l);
		n += l;
		i = j + 1;
		if (j == dl) break;
	}
	if (n + 1 > outsz) return -1;
	out[n++] = 0;
	return n;
}

static int lc(int c) { return (c >= 'A' && c <= 'Z') ? c + 32 : c; }

int rd_name_eq_ci(const uint8_t *a, int al, const uint8_t *b, int bl)
{
	if (al != bl) return 0;
	int p = 0;
	while (p < al) {
		int l = a[p];
		if (b[p] != l) return 0;
		for (int i = 1; i <= l; i++) if (lc(a[p + i]) != lc(b[p + i])) return 0;
		p += 1 + l;
		if (l == 0) break;
	}
	return 1;
}

int rd_mkquery(uint8_t *buf, int bufsz, int id, const uint8_t *wn, int wl, int qtype, int edns0)
{
	int n = 12 + wl + 4 + (edns0 ? 11 : 0);
	if (n > bufsz) return -1;
	memset(buf, 0, n);
	buf[0] = id >> 8; buf[1] = id; buf[2] = 0x01; buf[5] = 1;
	memcpy(buf + 12, wn, wl);
	int p = 12 + wl;
	buf[p++] = qtype >> 8; buf[p++] = qtype; buf[p++] = 0; buf[p++] = 1;
	if (edns0) {
		buf[11] = 1;
		buf[p++] = 0; buf[p++] = 0; buf[p++] = 41; buf[p++] = 0x10; buf[p++] = 0; buf[p++] = 0; buf[p++] = 0;
		buf[p++] = 0x80; buf[p++] = 0; buf[p++] = 0; buf[p++] = 0;
	}
	return p;
}

int rd_mkanswer(uint8_t *buf, int bufsz, const uint8_t *q, int qlen, const uint8_t *rdata, int rdlen, int kind)
{
	/* locate end of question */
	int p = 12;
	while (p < qlen && q[p]) { if ((q[p] & 0xc0) == 0xc0) { p++; break; } p += 1 + q[p]; }
	p++;
	int qend = p + 4;
	if (qend > qlen || qend + 12 + rdlen + rdlen / 255 + 2 > bufsz) return -1;
	memcpy(buf, q, qend);
	buf[2] = 0x84; buf[3] = 0; buf[4] = 0; buf[5] = 1; buf[6] = 0; buf[7] = 1; buf[8] = buf[9] = buf[10] = buf[11] = 0;
	int n = qend;
	buf[n++] = 0xc0; buf[n++] = 12;
	buf[n++] = q[qend - 4]; buf[n++] = q[qend - 3];
	buf[n++] = 0; buf[n++] = 1;
	buf[n++] = 0; buf[n++] = 0; buf[n++] = 0; buf[n++] = 0;
	int lenpos = n; n += 2;
	if (kind == 1) {
		int off = 0;
		do {
			int l = rdlen - off > 255 ? 255 : rdlen - off;
			buf[n++] = l; memcpy(buf + n, rdata + off, l); n += l; off += l;
		} while (off < rdlen);
	} else { memcpy(buf + n, rdata, rdlen); n += rdlen; }
	buf[lenpos] = (n - lenpos - 2) >> 8; buf[lenpos + 1] = (n - lenpos - 2);
	return n;
}
