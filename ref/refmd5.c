/* Independent MD5 (RFC 1321), written for the harness; table computed from sin() as the RFC defines it. */
#include <stdint.h>
#include <string.h>
#include <math.h>
#include "refmd5.h"

static uint32_t K[64];
static int kinit;
static const int S[64] = { 7,12,17,22,7,12,17,22,7,12,17,22,7,12,17,22, 5,9,14,20,5,9,14,20,5,9,14,20,5,9,14,20,
	4,11,16,23,4,11,16,23,4,11,16,23,4,11,16,23, 6,10,15,21,6,10,15,21,6,10,15,21,6,10,15,21 };

static uint32_t rol(uint32_t x, int n) { return (x << n) | (x >> (32 - n)); }

void ref_md5(const unsigned char *msg, size_t len, unsigned char out[16])
{
	if (!kinit) { for (int i = 0; i < 64; i++) K[i] = (uint32_t)floor(fabs(sin((double)(i + 1))) * 4294967296.0); kinit = 1; }
	uint32_t a0 = 0x67452301, b0 = 0xefcdab89, c0 = 0x98badcfe, d0 = 0x10325476;
	size_t total = ((len + 8) / 64 + 1) * 64;
	unsigned char buf[512];
	if (total > sizeof buf) return;
	memset(buf, 0, total);
	memcpy(buf, msg, len);
	buf[len] = 0x80;
	uint64_t bits = (uint64_t)len * 8;
	for (int i = 0; i < 8; i++) buf[total - 8 + i] = (unsigned char)(bits >> (8 * i));
	for (size_t off = 0; off < total; off += 64) {
		uint32_t M[16];
		for (int i = 0; i < 16; i++)
			M[i] = (uint32_t)buf[off + 4 * i] | ((uint32_t)buf[off + 4 * i + 1] << 8) | ((uint32_t)buf[off + 4 * i + 2] << 16) | ((uint32_t)buf[off + 4 * i + 3] << 24);
		uint32_t A = a0, B = b0, C = c0, D = d0;
		for (int i = 0; i < 64; i++) {
			uint32_t F; int g;
			if (i < 16) { F = (B & C) | (~B & D); g = i; }
			else if (i < 32) { F = (D & B) | (~D & C); g = (5 * i + 1) % 16; }
			else if (i < 48) { F = B ^ C ^ D; g = (3 * i + 5) % 16; }
			else { F = C ^ (B | ~D); g = (7 * i) % 16; }
			F = F + A + K[i] + M[g];
			A = D; D = C; C = B;
			B = B + rol(F, S[i]);
		}
		a0 += A; b0 += B; c0 += C; d0 += D;
	}
	uint32_t r[4] = { a0, b0, c0, d0 };
	for (int i = 0; i < 4; i++) for (int j = 0; j < 4; j++) out[4 * i + j] = (unsigned char)(r[i] >> (8 * j));
}

/* The documented login response (doc/proto_00000502.txt): MD5 of the first 32 bytes of the
 * zero-padded password XORed with eight big-endian repetitions of the 32-bit challenge. */
void ref_login(const unsigned char pass32[32], uint32_t challenge, unsigned char out[16])
{
	unsigned char t[32];
	for (int i = 0; i < 32; i++) t[i] = pass32[i] ^ (unsigned char)(challenge >> (8 * (3 - (i & 3))));
	ref_md5(t, 32, out);
}
