#ifndef REFCODEC_H
#define REFCODEC_H
#include <stddef.h>
enum { REF_B32 = 0, REF_B64 = 1, REF_B64U = 2, REF_B128 = 3 };
int ref_bits(int codec);
int ref_calibrate(int codec, int (*encode)(char *, size_t *, const void *, size_t));
int ref_in_alphabet(int codec, unsigned char c);
int ref_decodable(int codec, unsigned char c);
size_t ref_enclen(int codec, size_t n);
size_t ref_encode(int codec, const unsigned char *in, size_t n, unsigned char *out);
size_t ref_decode(int codec, const unsigned char *in, size_t nchars, unsigned char *out);
#endif
