#ifndef REFMD5_H
#define REFMD5_H
#include <stdint.h>
#include <stddef.h>
void ref_md5(const unsigned char *msg, size_t len, unsigned char out[16]);
void ref_login(const unsigned char pass32[32], uint32_t challenge, unsigned char out[16]);
#endif
