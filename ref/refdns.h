/* Strict, independent RFC 1035 message parser and a small query builder (harness side). */
#ifndef REFDNS_H
#define REFDNS_H
#include <stdint.h>
#include <stddef.h>

#define RD_MAXRR 300

typedef struct rd_rr {
	uint8_t name[256]; int namelen;       /* expanded wire form incl. root byte */
	int type, class_; uint32_t ttl;
	int rdoff, rdlen;                     /* offsets into the message */
	uint8_t target[256]; int targetlen;   /* expanded name inside RDATA (NS/CNAME/MX/SRV), wire form */
	int pref;                             /* MX/SRV preference */
	int section;                          /* 1 answer, 2 authority, 3 additional */
} rd_rr;

typedef struct rd_msg {
	int id, qr, opcode, aa, tc, rd, ra, rcode;
	int qd, an, ns, ar;
	uint8_t qname[256]; int qnamelen;     /* expanded wire form */
	int qname_off;
	int qtype, qclass;
	int nrr;
	rd_rr rr[RD_MAXRR];
} rd_msg;

/* returns 0 if well-formed, else -1 with a reason in err (>= 128 bytes) */
int rd_parse(const uint8_t *m, int len, rd_msg *out, char *err);

/* wire name -> dotted presentation (raw bytes, no escaping) ; returns length */
int rd_name_to_dotted(const uint8_t *wire, int wirelen, char *out, int outsz);
/* dotted (may contain any byte except '.' inside labels) -> wire; returns length or -1 */
int rd_dotted_to_wire(const char *dotted, int dlen, uint8_t *out, int outsz);
/* case-insensitive (ASCII) comparison of two wire names */
int rd_name_eq_ci(const uint8_t *a, int alen, const uint8_t *b, int blen);

/* build a query: returns length */
int rd_mkquery(uint8_t *buf, int bufsz, int id, const uint8_t *wirename, int wirelen, int qtype, int edns0);



/* build an answer to query q (qlen bytes) carrying rdata as a single record of the question's
 * type with owner = pointer to the question name.  For TXT, rdata is chunked into strings.
 * kind: 0 = raw rdata (NULL/PRIVATE/any), 1 = TXT chunking.  Returns length or -1. */
int rd_mkanswer(uint8_t *buf, int bufsz, const uint8_t *q, int qlen, const uint8_t *rdata, int rdlen, int kind);
#endif
