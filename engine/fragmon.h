/* C15 fragment monitor: every server answer that carries tunnel data is decoded by the reference
 * decoders (downdec.h) and checked against the fragment size negotiated on the wire.
 * Header-only; the including harness provides  viol(what, fmt, ...)  and FM_COUNT_FRAG(). */
#ifndef FRAGMON_H
#define FRAGMON_H
#include <zlib.h>
#include "downdec.h"
typedef struct fragstate { int F; int pendingF; int cur_seq, next_frag, total; int finished; unsigned char lastfrag[4100]; int lastlen; int lastflag; unsigned char asm_[70000]; } fragstate;
static fragstate FST[3];
static int b32val(int c) { if (c >= 'a' && c <= 'z') return c - 'a'; if (c >= 'A' && c <= 'Z') return c - 'A'; if (c >= '0' && c <= '5') return 26 + c - '0'; return -1; }

static void c15_on_query(const rd_msg *m, int sess)
{
	/* 'n' request: base32(userid, size_hi, size_lo, cmc..) */
	if (m->qnamelen < 8 || sess < 1 || sess > 2) return;
	int l0 = m->qname[0];
	if (tolower(m->qname[1]) != 'n' || l0 < 6) return;
	unsigned char v[8]; unsigned char raw[5] = { 0 };
	for (int i = 0; i < 5 && i + 2 <= l0; i++) { int x = b32val(m->qname[2 + i]); if (x < 0) return; v[i] = x; }
	raw[0] = (v[0] << 3) | (v[1] >> 2); raw[1] = ((v[1] & 3) << 6) | (v[2] << 1) | (v[3] >> 4); raw[2] = ((v[3] & 15) << 4) | (v[4] >> 1);
	FST[sess].pendingF = (raw[1] << 8) | raw[2];
}

static void c15_on_answer(const rd_msg *m, const unsigned char *msg, int len, int sess)
{
	(void)len;
	if (sess < 1 || sess > 2 || m->qnamelen < 3) return;
	fragstate *f = &FST[sess];
	if (f->F == 0) f->F = 100;
	int c = m->qname[1];
	static unsigned char pl[70000];
	int n = decode_downstream(m, msg, pl, sizeof pl);
	if (tolower(c) == 'n') {
		/* accepted iff the reply is the two size bytes */
		if (n == 2 && ((pl[0] << 8) | pl[1]) == f->pendingF) {
			if (f->pendingF < 2) viol("fragsize-below-2-accepted", "server acknowledged fragment size %d", f->pendingF);
			f->F = f->pendingF;
		}
		return;
	}
	int isdata = (tolower(c) == 'p') || isxdigit(c);
	if (!isdata) return;
	if (n < 0) { viol("undecodable-data-answer", "answer to a %c query of session %d cannot be decoded by the reference decoder", c, sess); return; }
	if (n < 2) return;                       /* 1-byte illegal answer to a duplicate */
	if (n == 5 && !memcmp(pl, "BADIP", 5)) return;
	FM_COUNT_FRAG();
	int dlen = n - 2;
	int seq = (pl[1] >> 5) & 7, frag = (pl[1] >> 1) & 15, last = pl[1] & 1;
	if (getenv("FM_DEBUG")) dprintf(2, "fragmon: sess %d F %d answer carries %d bytes seq %d frag %d last %d (asm total %d)\n", sess, f->F, dlen, seq, frag, last, f->total);
	if (dlen > f->F) viol("fragment-larger-than-negotiated", "session %d negotiated %d but an answer carries %d payload bytes (seq %d frag %d)", sess, f->F, dlen, seq, frag);
	if (dlen == 0) return;
	if (seq != f->cur_seq || (frag == 0 && f->finished)) {
		if (seq != f->cur_seq || frag == 0) {
			if (frag != 0) { viol("first-fragment-not-zero", "session %d: first fragment seen of downstream packet %d has number %d", sess, seq, frag); }
			f->cur_seq = seq; f->next_frag = 0; f->total = 0; f->finished = 0; f->lastlen = -1;
		}
	}
	if (frag == f->next_frag) {
		if (f->finished) viol("fragment-after-last", "session %d: fragment %d follows the last-flagged fragment of packet %d", sess, frag, seq);
		if (f->total + dlen <= (int)sizeof f->asm_) memcpy(f->asm_ + f->total, pl + 2, dlen);
		f->total += dlen; f->next_frag++;
		memcpy(f->lastfrag, pl + 2, dlen > 4096 ? 4096 : dlen); f->lastlen = dlen; f->lastflag = last;
		if (last) {
			f->finished = 1;
			static unsigned char un[70000]; unsigned long ul = sizeof un;
			if (uncompress(un, &ul, f->asm_, f->total) != Z_OK)
				viol("last-flag-on-non-final-fragment", "session %d packet %d: fragments 0..%d (%d bytes) flagged complete but do not form a compressed packet", sess, seq, frag, f->total);
		}
	} else if (frag == f->next_frag - 1) {
		/* resend of the current fragment.  The server cuts it again at the fragment size in force, so after a size
		 * change in mid-packet the resend may be shorter or longer than the first transmission; the property bounds
		 * its size (checked above) but does not promise identical resends.  The server continues from the end of what
		 * it sent last, so that is what the reassembly here follows. */
		if (f->lastlen >= 0 && f->lastlen != dlen) {
			f->total = f->total - f->lastlen + dlen;
			if (f->total >= 0 && f->total <= (int)sizeof f->asm_) memcpy(f->asm_ + f->total - dlen, pl + 2, dlen);
			memcpy(f->lastfrag, pl + 2, dlen > 4096 ? 4096 : dlen); f->lastlen = dlen;
		}
		if (last != f->lastflag) {
			f->lastflag = last; f->finished = last;
			if (last) {
				static unsigned char un2[70000]; unsigned long ul2 = sizeof un2;
				if (uncompress(un2, &ul2, f->asm_, f->total) != Z_OK)
					viol("last-flag-on-non-final-fragment", "session %d packet %d: resent fragment %d flagged last but fragments 0..%d (%d bytes) do not form a compressed packet", sess, seq, frag, frag, f->total);
			}
		}
	} else if (frag > f->next_frag) {
		viol("fragment-number-skipped", "session %d packet %d: fragment %d sent when %d was next", sess, seq, frag, f->next_frag);
	}
}

#endif
