/* Canonical hash of the server's users[] table for E-B state keys.
 * users[] is calloc'd (not in the image sections).  struct query / struct packet buffers hold
 * stale bytes beyond the C string / beyond .len that correct code never reads (C12 and C05 test
 * exactly that separately), so they are hashed up to the terminator / length only: two states
 * that differ only in those dead bytes have the same futures.  Everything else is hashed raw. */
#ifndef SRVSTATE_H
#define SRVSTATE_H
#include <string.h>
#include "hash.h"
#include "images.h"

/* the meaningful part of a socket address: family, port, address (iodined copies sizeof(sockaddr_storage)
 * bytes around, i.e. also whatever followed the sockaddr_in on its stack) */
static void ss_hash_addr(h128 *h, const struct sockaddr_storage *a, socklen_t len)
{
	h128_update(h, &a->ss_family, sizeof a->ss_family);
	if (a->ss_family == AF_INET && len >= sizeof(struct sockaddr_in)) {
		const struct sockaddr_in *x = (const void *)a;
		h128_update(h, &x->sin_port, 2); h128_update(h, &x->sin_addr, 4);
	} else if (a->ss_family == AF_INET6 && len >= sizeof(struct sockaddr_in6)) {
		const struct sockaddr_in6 *x = (const void *)a;
		h128_update(h, &x->sin6_port, 2); h128_update(h, &x->sin6_addr, 16);
	} else h128_update(h, a, len <= sizeof *a ? len : sizeof *a);
}

static void ss_hash_query(h128 *h, const struct query *q)
{
	size_t nl = strnlen(q->name, sizeof q->name);
	h128_update(h, q->name, nl);
	h128_update(h, &q->type, sizeof q->type);
	h128_update(h, &q->id, sizeof q->id);
	h128_update(h, &q->id2, sizeof q->id2);
	if (q->id == 0 && q->id2 == 0) return;          /* "no query": addresses are dead */
	h128_update(h, &q->fromlen, sizeof q->fromlen);
	ss_hash_addr(h, &q->from, q->fromlen);
	ss_hash_addr(h, &q->destination, q->dest_len);
	if (q->id2) ss_hash_addr(h, &q->from2, q->fromlen2);
}

static void ss_hash_packet(h128 *h, const struct packet *p)
{
	h128_update(h, &p->len, sizeof p->len);
	h128_update(h, &p->sentlen, sizeof p->sentlen);
	h128_update(h, &p->offset, sizeof p->offset);
	h128_update(h, &p->seqno, 1);
	h128_update(h, &p->fragment, 1);
	int n = p->len;
	if (n < 0) n = 0;
	if (n > (int)sizeof p->data) n = sizeof p->data;
	/* inpacket: offset bytes are live while a packet is being reassembled */
	if (p->offset > n && p->offset <= (int)sizeof p->data) n = p->offset;
	h128_update(h, p->data, n);
}

/* stream_only: leave out what a re-delivered query may legitimately touch - the activity time stamp, the bound address and the
 * held queries (a remembered duplicate is recorded there) - and keep everything that describes the two packet streams, the
 * negotiated settings, the query memories and the answer cache */
static void ss_hash_user2(h128 *h, const struct tun_user *u, int stream_only)
{
	h128_update(h, &u->id, 1);
	h128_update(h, &u->active, sizeof u->active);
	if (!u->active) return;                         /* never allocated: constant */
	h128_update(h, &u->authenticated, sizeof u->authenticated);
	h128_update(h, &u->authenticated_raw, sizeof u->authenticated_raw);
	h128_update(h, &u->options_locked, sizeof u->options_locked);
	h128_update(h, &u->disabled, sizeof u->disabled);
	h128_update(h, &u->seed, sizeof u->seed);
	h128_update(h, &u->tun_ip, sizeof u->tun_ip);
	if (!stream_only) {
		h128_update(h, &u->last_pkt, sizeof u->last_pkt);
		ss_hash_addr(h, &u->host, u->hostlen);
		ss_hash_query(h, &u->q);
		ss_hash_query(h, &u->q_sendrealsoon);
		h128_update(h, &u->q_sendrealsoon_new, sizeof u->q_sendrealsoon_new);
	}
	ss_hash_packet(h, &u->inpacket);
	ss_hash_packet(h, &u->outpacket);
	h128_update(h, &u->outfragresent, sizeof u->outfragresent);
	h128_update(h, &u->encoder, sizeof u->encoder);
	h128_update(h, &u->downenc, 1);
	h128_update(h, &u->fragsize, sizeof u->fragsize);
	h128_update(h, &u->conn, sizeof u->conn);
	h128_update(h, &u->lazy, sizeof u->lazy);
	h128_update(h, u->qmemping_cmc, sizeof u->qmemping_cmc);
	h128_update(h, u->qmemping_type, sizeof u->qmemping_type);
	h128_update(h, &u->qmemping_lastfilled, sizeof u->qmemping_lastfilled);
	h128_update(h, u->qmemdata_cmc, sizeof u->qmemdata_cmc);
	h128_update(h, u->qmemdata_type, sizeof u->qmemdata_type);
	h128_update(h, &u->qmemdata_lastfilled, sizeof u->qmemdata_lastfilled);
	h128_update(h, &u->outpacketq_nexttouse, sizeof u->outpacketq_nexttouse);
	h128_update(h, &u->outpacketq_filled, sizeof u->outpacketq_filled);
	for (int i = 0; i < u->outpacketq_filled && i < OUTPACKETQ_LEN; i++) {
		const struct packet *p = &u->outpacketq[(u->outpacketq_nexttouse + i) % OUTPACKETQ_LEN];
		int n = p->len < 0 ? 0 : p->len > (int)sizeof p->data ? (int)sizeof p->data : p->len;
		h128_update(h, &p->len, sizeof p->len);
		h128_update(h, p->data, n);
	}
	if (stream_only >= 2) return;                   /* ... and the answer cache (a case-changed repeat is answered anew and cached) */
	h128_update(h, &u->dnscache_lastfilled, sizeof u->dnscache_lastfilled);
	for (int i = 0; i < DNSCACHE_LEN; i++) {
		ss_hash_query(h, &u->dnscache_q[i]);
		int n = u->dnscache_answerlen[i];
		h128_update(h, &n, sizeof n);
		if (n > 0 && n <= (int)sizeof u->dnscache_answer[i]) h128_update(h, u->dnscache_answer[i], n);
	}
}

static void ss_hash_user(h128 *h, const struct tun_user *u) { ss_hash_user2(h, u, 0); }

static void ss_hash_users(h128 *h, const struct tun_user *users, int n)
{
	for (int i = 0; i < n; i++) ss_hash_user(h, &users[i]);
}

#endif
