#define _GNU_SOURCE
#include <stdio.h>
#include <stdlib.h>
#include <string.h>
#include <stdarg.h>
#include <unistd.h>
#include <errno.h>
#include <time.h>
#include <signal.h>
#include <sys/mman.h>
#include <sys/wait.h>
#include <sys/stat.h>

#include "explore.h"

xp_shared *XS;
xp_ctx XC;
static xp_entry *TAB;
void (*xp_describe_job)(int job, char *buf, size_t buflen);
const char *xp_part = "main";      /* which harness of a multi-part check wrote a replay file */

double xp_now(void)
{
	struct timespec ts;
	clock_gettime(CLOCK_MONOTONIC, &ts);
	return ts.tv_sec + ts.tv_nsec / 1e9;
}

/* spin lock in shared memory; the value is the holder's pid so that a holder that died (a crash of the code under
 * test inside a child) cannot block everybody else for ever */
static void lock(void)
{
	int me = (int)getpid(), spins = 0;
	for (;;) {
		int expect = 0;
		if (__atomic_compare_exchange_n(&XS->lock, &expect, me, 0, __ATOMIC_ACQUIRE, __ATOMIC_RELAXED)) return;
		usleep(50);
		if (++spins > 2000) {
			spins = 0;
			if (expect > 0 && kill(expect, 0) != 0 && errno == ESRCH) __atomic_compare_exchange_n(&XS->lock, &expect, 0, 0, __ATOMIC_ACQ_REL, __ATOMIC_RELAXED);
		}
	}
}
static void unlock(void) { __atomic_store_n(&XS->lock, 0, __ATOMIC_RELEASE); }
#define ADD(field, n) __atomic_fetch_add(&XS->field, (n), __ATOMIC_RELAXED)

void xp_init(const char *prop, const char *tier, size_t table_entries, double budget_s)
{
	size_t e = 1;
	while (e < table_entries) e <<= 1;
	XS = mmap(NULL, sizeof *XS, PROT_READ | PROT_WRITE, MAP_SHARED | MAP_ANONYMOUS, -1, 0);
	if (XS == MAP_FAILED) { perror("mmap"); exit(2); }
	memset(XS, 0, sizeof *XS);
	XS->tabsize = e;
	TAB = mmap(NULL, e * sizeof(xp_entry), PROT_READ | PROT_WRITE,
		   MAP_SHARED | MAP_ANONYMOUS | MAP_NORESERVE, -1, 0);
	if (TAB == MAP_FAILED) { perror("mmap table"); exit(2); }
	XS->deadline = xp_now() + budget_s;
	memset(&XC, 0, sizeof XC);
	XC.prop = prop; XC.tier = tier;
}

int xp_expired(void) { return xp_now() > XS->deadline; }

int xp_visit(const uint64_t key[2], int depth)
{
	xp_progress++;
	size_t mask = XS->tabsize - 1;
	size_t i = (size_t)key[0] & mask;
	/* nearly full: stop expanding new states (the run is reported as not exhaustive) instead of crawling or failing */
	if ((size_t)XS->states > XS->tabsize - XS->tabsize / 8) {
		if (__atomic_fetch_add(&XS->counters[29], 1, __ATOMIC_RELAXED) == 0) dprintf(2, "explorer: visited table (%zu entries) nearly full, no further states are expanded\n", (size_t)XS->tabsize);
		ADD(incomplete, 1);
		return 0;
	}
	for (size_t probe = 0; probe < XS->tabsize; probe++, i = (i + 1) & mask) {
		xp_entry *e = &TAB[i];
		uint64_t k1 = __atomic_load_n(&e->k1, __ATOMIC_ACQUIRE);
		if (k1 == 0) {
			uint64_t expect = 0;
			/* claim the slot with k1 (never 0), then publish k0 */
			if (__atomic_compare_exchange_n(&e->k1, &expect, key[1], 0,
							__ATOMIC_ACQ_REL, __ATOMIC_ACQUIRE)) {
				e->depth = depth;
				__atomic_store_n(&e->k0, key[0], __ATOMIC_RELEASE);
				ADD(states, 1);
				return 1;
			}
			k1 = expect;
		}
		if (k1 == key[1]) {
			/* wait for k0 to be published */
			uint64_t k0; int spin = 0;
			while ((k0 = __atomic_load_n(&e->k0, __ATOMIC_ACQUIRE)) == 0 && spin++ < 1000) usleep(1);
			if (k0 == key[0]) {
				int d = __atomic_load_n(&e->depth, __ATOMIC_RELAXED);
				if (d <= depth) { ADD(revisits, 1); return 0; }
				__atomic_store_n(&e->depth, depth, __ATOMIC_RELAXED);   /* reached shallower: re-expand */
				return 1;
			}
		}
	}
	dprintf(1, "HARNESS-ERROR visited table full\n");
	_exit(2);
}

void xp_outcome(uint64_t h)
{
	xp_progress++;
	/* callers pass structured keys: finalize so that linear probing stays short */
	h ^= h >> 33; h *= 0xff51afd7ed558ccdULL; h ^= h >> 33; h *= 0xc4ceb9fe1a85ec53ULL; h ^= h >> 33;
	if (h == 0) h = 1;
	/* the set saturates at 3/4 of its capacity (the count is then a lower bound): a full table would make every
	 * further call scan all of it */
	if (__atomic_load_n(&XS->noutcomes, __ATOMIC_RELAXED) >= (long)(XP_OUTCOMES / 4 * 3)) return;
	size_t mask = XP_OUTCOMES - 1, i = (size_t)h & mask;
	for (size_t probe = 0; probe < XP_OUTCOMES; probe++, i = (i + 1) & mask) {
		uint64_t cur = __atomic_load_n(&XS->outcomes[i], __ATOMIC_ACQUIRE);
		if (cur == h) return;
		if (cur == 0) {
			uint64_t expect = 0;
			if (__atomic_compare_exchange_n(&XS->outcomes[i], &expect, h, 0,
							__ATOMIC_ACQ_REL, __ATOMIC_ACQUIRE)) {
				ADD(noutcomes, 1);
				return;
			}
			if (expect == h) return;
		}
	}
}

void xp_sample(const char *fmt, ...)
{
	if (XS->nsamples >= XP_MAXSAMPLE) return;
	lock();
	if (XS->nsamples < XP_MAXSAMPLE) {
		va_list ap; va_start(ap, fmt);
		vsnprintf(XS->samples[XS->nsamples], sizeof XS->samples[0], fmt, ap);
		va_end(ap);
		XS->nsamples++;
	}
	unlock();
}

void xp_count(int idx, long n) { xp_progress++; ADD(counters[idx], n); }

static void json_escape(FILE *f, const char *s)
{
	for (; *s; s++) {
		unsigned char c = *s;
		if (c == '"' || c == '\\') fprintf(f, "\\%c", c);
		else if (c < 0x20 || c >= 0x7f) fprintf(f, "\\u%04x", c);
		else fputc(c, f);
	}
}

void xp_violation(const char *sig, const char *fmt, ...)
{
	char detail[400];
	va_list ap; va_start(ap, fmt);
	vsnprintf(detail, sizeof detail, fmt, ap);
	va_end(ap);
	ADD(viol_total, 1);
	if (XC.replay) {
		/* one line per signature: a replayed enumerator job can hit the same violation millions of times */
		static char seen[64][128]; static int nseen;
		for (int i = 0; i < nseen; i++) if (!strncmp(seen[i], sig, 127)) return;
		if (nseen < 64) snprintf(seen[nseen++], 128, "%s", sig);
		else return;
		printf("REPLAY-VIOLATION sig=%s detail=%s\n", sig, detail);
		fflush(stdout);
		return;
	}
	lock();
	int idx = -1;
	for (int i = 0; i < XS->nviol; i++)
		if (!strcmp(XS->viol[i].sig, sig)) { idx = i; break; }
	if (idx >= 0) { XS->viol[idx].count++; unlock(); return; }
	if (XS->nviol >= XP_MAXVIOL) { unlock(); return; }
	idx = XS->nviol;
	xp_viol *v = &XS->viol[idx];
	snprintf(v->sig, sizeof v->sig, "%s", sig);
	snprintf(v->detail, sizeof v->detail, "%s", detail);
	v->count = 1;
	mkdir("evidence", 0755);
	mkdir("evidence/replays", 0755);
	snprintf(v->replay, sizeof v->replay, "evidence/replays/%s-%s-%s-%d.json", XC.prop, XC.tier, xp_part, idx);
	XS->nviol++;
	unlock();
	FILE *f = fopen(v->replay, "w");
	if (f) {
		char jd[300] = "";
		if (xp_describe_job) xp_describe_job(XC.job, jd, sizeof jd);
		fprintf(f, "{\"property\":\"%s\",\"tier\":\"%s\",\"part\":\"%s\",\"job\":%d,\"job_desc\":\"", XC.prop, XC.tier, xp_part, XC.job);
		json_escape(f, jd);
		fprintf(f, "\",\"budget\":%d,\"path\":[", XC.budget);
		for (int i = 0; i < XC.npath; i++)
			fprintf(f, "%s[%d,%d]", i ? "," : "", XC.path[i].cp, XC.path[i].alt);
		fprintf(f, "],\"sig\":\"");
		json_escape(f, sig);
		fprintf(f, "\",\"detail\":\"");
		json_escape(f, detail);
		fprintf(f, "\"}\n");
		fclose(f);
	}
}

int xp_load_replay(const char *file)
{
	FILE *f = fopen(file, "r");
	if (!f) { fprintf(stderr, "cannot open replay %s\n", file); exit(2); }
	static char buf[65536];
	size_t n = fread(buf, 1, sizeof buf - 1, f);
	buf[n] = 0;
	fclose(f);
	char *p = strstr(buf, "\"job\":");
	int job = p ? atoi(p + 6) : -1;
	XC.replay = 1;
	XC.npath = 0;
	p = strstr(buf, "\"path\":[");
	if (p) {
		p += 8;
		while (*p == '[' || *p == ',') {
			if (*p == ',') { p++; continue; }
			int a, b;
			if (sscanf(p, "[%d,%d]", &a, &b) != 2) break;
			if (XC.npath < XP_MAXPATH) { XC.path[XC.npath].cp = a; XC.path[XC.npath].alt = b; XC.npath++; }
			p = strchr(p, ']');
			if (!p) break;
			p++;
		}
	}
	XC.job = job;
	return job;
}

void xp_child_exit(void)
{
	fflush(stdout);
	_exit(0);
}

void xp_leaf(void)
{
	ADD(execs, 1);
	if (XC.is_child) xp_child_exit();
}


/* ------------------------------------------------------------------ */
/* guard: executions of the code under test that never return, or crash */
#include <sys/time.h>
volatile long xp_progress;                      /* process-local: bumped by the explorer calls and by every context switch of the virtual world */
static const char *guard_as; static volatile int *guard_cur; static int guard_on;
static long guard_last = -1; static int guard_stale;
static void guard_arm(void)
{
	struct itimerval it; memset(&it, 0, sizeof it);
	it.it_value.tv_sec = 5; it.it_interval.tv_sec = 5;
	guard_last = -1; guard_stale = 0;
	setitimer(ITIMER_PROF, &it, NULL);       /* CPU time of this process, so a busy machine cannot trip it */
}
static void guard_report(const char *what, const char *detail_fmt, int n)
{
	int proc = guard_cur ? *guard_cur : 0;
	if (guard_as && (guard_as[0] == '!' || (!strcmp(guard_as, "C05")) == (proc <= 0))) {
		char s[120]; snprintf(s, sizeof s, "%s:%s", guard_as + (guard_as[0] == '!'), what);
		xp_violation(s, detail_fmt, proc <= 0 ? "server" : "client", n);
	} else ADD(counters[30], 1);
	ADD(incomplete, 1);
	if (XC.replay) { printf("REPLAY-NOTE execution aborted by the guard (%s)\n", what); fflush(stdout); }
	_exit(0);
}
static void guard_prof(int sig)
{
	(void)sig;
	long p = xp_progress;
	if (p != guard_last) { guard_last = p; guard_stale = 0; return; }
	if (++guard_stale < 4) return;
	guard_report("not-processed-in-bounded-time", "the %s kept the CPU for %d s without returning to its select() loop", 20);
}
static void guard_crash(int sig)
{
	signal(sig, SIG_DFL);
	guard_report("crashed", "the %s was killed by signal %d", sig);
}
/* san_as: NULL (count and abort the execution), "C05" (in the server: violation) or "C06" (in the client), or "!<id>" (always a violation of <id>:
 * a pure function that does not return does not produce its documented result); curproc: the virtual world's current process */
void xp_guard(const char *san_as, volatile int *curproc, int catch_crashes)
{
	guard_as = san_as; guard_cur = curproc; guard_on = 1;
	signal(SIGPROF, guard_prof);
#if defined(__SANITIZE_ADDRESS__)
	catch_crashes = 0;          /* ASan reports the faulting access itself (on_sanitizer hook) */
#endif
	if (catch_crashes) {
		static char altstack[65536];
		stack_t ss; memset(&ss, 0, sizeof ss); ss.ss_sp = altstack; ss.ss_size = sizeof altstack;
		sigaltstack(&ss, NULL);
		struct sigaction sa; memset(&sa, 0, sizeof sa); sa.sa_handler = guard_crash; sa.sa_flags = SA_ONSTACK | SA_NODEFER;
		sigaction(SIGSEGV, &sa, NULL); sigaction(SIGBUS, &sa, NULL); sigaction(SIGFPE, &sa, NULL); sigaction(SIGILL, &sa, NULL);
	}
	guard_arm();
}

static int forked_child(void)
{
	fflush(stdout);
	pid_t pid = fork();
	if (pid < 0) {
		/* transient resource shortage: wait and retry a few times */
		for (int i = 0; i < 50 && pid < 0; i++) { usleep(20000); pid = fork(); }
		if (pid < 0) { dprintf(1, "HARNESS-ERROR fork failed: %s\n", strerror(errno)); _exit(2); }
	}
	if (pid == 0) { XC.is_child = 1; if (guard_on) guard_arm(); return 0; }
	ADD(forks, 1);
	int st;
	while (waitpid(pid, &st, 0) < 0 && errno == EINTR) ;
	if (WIFSIGNALED(st)) {
		/* a crash of the code under test inside a child (e.g. SIGSEGV under a non-ASan build) */
		char sig[80];
		snprintf(sig, sizeof sig, "child-killed-by-signal-%d", WTERMSIG(st));
		ADD(counters[31], 1);
		dprintf(2, "explorer: %s\n", sig);
	} else if (WIFEXITED(st) && WEXITSTATUS(st) == 2) {
		dprintf(1, "HARNESS-ERROR child exited 2\n");
		_exit(2);
	}
	return (int)pid;
}

int xp_fork_wait(void) { return forked_child(); }

int xp_choose(int nalts, const int *costs)
{
	int cp = XC.ncp++;
	ADD(choicepoints, 1);
	if (XC.replay) {
		for (int i = 0; i < XC.npath; i++)
			if (XC.path[i].cp == cp) {
				if (XC.path[i].alt >= nalts) {
					dprintf(1, "HARNESS-ERROR replay choice out of range at cp %d\n", cp);
					_exit(2);
				}
				return XC.path[i].alt;
			}
		return 0;
	}
	for (int alt = 1; alt < nalts; alt++) {
		if (costs[alt] > XC.budget) continue;
		if (xp_expired()) { ADD(incomplete, 1); break; }
		if (forked_child() == 0) {
			XC.budget -= costs[alt];
			if (XC.npath < XP_MAXPATH) { XC.path[XC.npath].cp = cp; XC.path[XC.npath].alt = alt; XC.npath++; }
			ADD(transitions, 1);
			return alt;
		}
	}
	return 0;
}

void xp_run_jobs(int njobs, void (*fn)(int job), int nworkers)
{
	int running = 0, next = 0;
	__atomic_fetch_add(&XS->jobs_total, njobs, __ATOMIC_RELAXED);
	while (next < njobs || running > 0) {
		while (next < njobs && running < nworkers) {
			if (xp_expired()) { ADD(incomplete, njobs - next); next = njobs; break; }
			fflush(stdout);
			pid_t pid = fork();
			if (pid < 0) { perror("fork"); exit(2); }
			if (pid == 0) {
				XC.job = next;
				XC.is_child = 0;      /* job root: xp_leaf() returns */
				if (guard_on) guard_arm();
				fn(next);
				ADD(jobs_done, 1);
				fflush(stdout);
				_exit(0);
			}
			next++; running++;
		}
		if (running > 0) {
			int st;
			pid_t p = wait(&st);
			if (p > 0) {
				running--;
				if (WIFEXITED(st) && WEXITSTATUS(st) == 2) {
					printf("HARNESS-ERROR worker exited 2\n");
					fflush(stdout);
					kill(0, SIGTERM);
					exit(2);
				}
				if (WIFSIGNALED(st)) {
					ADD(counters[31], 1);
					fprintf(stderr, "explorer: worker killed by signal %d\n", WTERMSIG(st));
				}
			}
		}
	}
}

void xp_print_stats(const char *extra_json)
{
	FILE *f = stdout;
	fprintf(f, "STATS {\"execs\":%ld,\"transitions\":%ld,\"states\":%ld,\"revisits\":%ld,"
		"\"choicepoints\":%ld,\"forks\":%ld,\"steps\":%ld,\"evals\":%ld,\"cap_hits\":%ld,"
		"\"incomplete\":%ld,\"jobs_done\":%ld,\"jobs_total\":%ld,\"maxdepth\":%ld,"
		"\"distinct_outcomes\":%ld,\"viol_total\":%ld,\"crashed_children\":%ld,\"counters\":[",
		XS->execs, XS->transitions, XS->states, XS->revisits, XS->choicepoints, XS->forks,
		XS->steps, XS->evals, XS->cap_hits, XS->incomplete, XS->jobs_done, XS->jobs_total,
		XS->maxdepth, XS->noutcomes, XS->viol_total, XS->counters[31]);
	for (int i = 0; i < 31; i++) fprintf(f, "%s%ld", i ? "," : "", XS->counters[i]);
	fprintf(f, "],\"violations\":[");
	for (int i = 0; i < XS->nviol; i++) {
		fprintf(f, "%s{\"sig\":\"", i ? "," : "");
		json_escape(f, XS->viol[i].sig);
		fprintf(f, "\",\"detail\":\"");
		json_escape(f, XS->viol[i].detail);
		fprintf(f, "\",\"replay\":\"");
		json_escape(f, XS->viol[i].replay);
		fprintf(f, "\",\"count\":%ld}", XS->viol[i].count);
	}
	fprintf(f, "],\"samples\":[");
	for (int i = 0; i < XS->nsamples; i++) {
		fprintf(f, "%s\"", i ? "," : "");
		json_escape(f, XS->samples[i]);
		fprintf(f, "\"");
	}
	fprintf(f, "]%s%s}\n", extra_json && *extra_json ? "," : "", extra_json ? extra_json : "");
	fflush(f);
}
