/* Client image wrapper: the real client.c is included verbatim. */
#include CLIENT_C

#include "wrap_api.h"

static char w_password[33];

void w_setup(const struct w_client_cfg *c)
{
	srand(c->srand_seed);
	client_init();
	client_set_nameserver((struct sockaddr_storage *)&c->nameserv, c->nameserv_len);
	client_set_topdomain(c->topdomain);
	/* iodine.c keeps the password in a zero-padded char[33] */
	memset(w_password, 0, sizeof(w_password));
	strncpy(w_password, c->password, sizeof(w_password) - 1);
	client_set_password(w_password);
	if (c->qtype && c->qtype[0]) {
		if (client_set_qtype((char *)c->qtype)) errx(2, "bad qtype");
	}
	if (c->downenc && c->downenc[0]) client_set_downenc((char *)c->downenc);
	client_set_selecttimeout(c->selecttimeout);
	client_set_lazymode(c->lazymode);
	client_set_hostname_maxlen(c->hostname_maxlen);
}

int w_handshake(int dns_fd, int raw_mode, int autodetect_frag_size, int fragsize)
{
	return client_handshake(dns_fd, raw_mode, autodetect_frag_size, fragsize);
}

int w_tunnel(int tun_fd, int dns_fd) { return client_tunnel(tun_fd, dns_fd); }

int w_is_sending(void) { return is_sending(); }
int w_conn(void) { return conn; }
int w_lazymode(void) { return lazymode; }
int w_selecttimeout(void) { return selecttimeout; }
int w_qtype(void) { return do_qtype; }
char w_downenc(void) { return downenc; }
const char *w_dataenc_name(void) { return dataenc->name; }
int w_userid(void) { return userid; }
unsigned w_chunkid(void) { return chunkid; }
struct packet *w_outpkt(void) { return &outpkt; }
struct packet *w_inpkt(void) { return &inpkt; }
int w_running(void) { return running; }

/* call-throughs used by the pure-function checks (C08, C09, C13) */
void w_set_dataenc(int bits)
{
	if (bits == 5) dataenc = &base32_ops;
	else if (bits == 6) dataenc = &base64_ops;
	else if (bits == 26) dataenc = &base64u_ops;
	else if (bits == 7) dataenc = &base128_ops;
}
void w_set_userid(int u)
{
	userid = u;
	userid_char = "0123456789abcdef"[u & 15];
	userid_char2 = "0123456789ABCDEF"[u & 15];
}
void w_set_conn(int c) { conn = c; }
void w_set_outpkt(const char *data, int len, int offset, int seqno, int fragment)
{
	memcpy(outpkt.data, data, len);
	outpkt.len = len; outpkt.offset = offset; outpkt.sentlen = 0;
	outpkt.seqno = seqno; outpkt.fragment = fragment;
}
void w_send_chunk(int fd) { send_chunk(fd); }
void w_resend_chunk(int fd) { outchunkresent++; send_chunk(fd); }      /* as client_tunnel() does on the re-send timeout */
void w_send_ping(int fd) { send_ping(fd); }
void w_send_version(int fd) { send_version(fd, PROTOCOL_VERSION); }
void w_send_login(int fd, char *login, int len) { send_login(fd, login, len); }
void w_send_fragsize_probe(int fd, int fragsize) { send_fragsize_probe(fd, fragsize); }
void w_send_set_downstream_fragsize(int fd, int fragsize) { send_set_downstream_fragsize(fd, fragsize); }
int w_read_dns_withq(int dns_fd, int tun_fd, char *buf, int buflen, struct query *q)
{
	return read_dns_withq(dns_fd, tun_fd, buf, buflen, q);
}
int w_handshake_login(int dns_fd, int seed) { return handshake_login(dns_fd, seed); }
int w_handshake_version(int dns_fd, int *seed) { return handshake_version(dns_fd, seed); }
void w_set_qtype_num(int t) { do_qtype = t; }
void w_set_edns0(int v) { dnsc_use_edns0 = v; }
