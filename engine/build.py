#!/usr/bin/env python3
"""Builds the iodine images (real sources from $VERIF_REPO, default /repo, current working
tree) and links a property harness against them.  See DESIGN.md 1.1.

An image is: wrapper TU (#include of client.c / iodined.c) + the repo's other objects,
partially linked, every symbol prefixed, undefined symbols mapped back to libc or to the
virtual world (vw_*), .data/.bss renamed so that __start_/__stop_ delimit the instance's
static state."""
import hashlib, os, shutil, subprocess, sys, glob, time

VERIF = os.path.dirname(os.path.dirname(os.path.abspath(__file__)))
REPO = os.environ.get("VERIF_REPO", "/repo")
BUILD = os.path.join(VERIF, "build")

COMMON = ["dns", "read", "encoding", "login", "base32", "base64", "base64u", "base128", "md5", "common"]
SERVER_ONLY = ["user", "fw_query"]

BASEFLAGS = ["-std=gnu99", "-g", "-O1", "-fno-pie", "-fno-pic", "-DLINUX", "-D_GNU_SOURCE", "-fno-common",
             "-fno-omit-frame-pointer", "-w", '-DGITREVISION="verif"']
FLAVORS = {
    "asan": ["-fsanitize=address,undefined", "-fno-sanitize=shift-base", "-fsanitize-recover=all"],
    "ubsan": ["-fsanitize=undefined", "-fno-sanitize=shift-base", "-fsanitize-recover=all"],
    "plain": [],
}

# environment calls owned by the virtual world
VWMAP = ["select", "sendto", "recvfrom", "recvmsg", "recv", "read", "write", "time", "rand", "srand",
         "sleep", "system", "exit", "err", "errx", "warn", "warnx", "syslog", "openlog", "fprintf",
         "fputc", "fputs", "fwrite", "fflush", "puts", "printf", "close"]
# environment calls that must never be reached from the loops we run
FORBIDDEN = ["socket", "bind", "open", "ioctl", "daemon", "chroot", "chdir", "fork", "alarm", "setuid",
             "seteuid", "setgid", "setgroups", "fopen", "fclose", "fcntl", "signal", "getpwnam",
             "tcgetattr", "tcsetattr", "umask", "getaddrinfo", "freeaddrinfo", "setsockopt",
             "__isoc99_fscanf", "getenv", "putc", "_IO_putc"]


def sh(cmd, **kw):
    r = subprocess.run(cmd, stdout=subprocess.PIPE, stderr=subprocess.STDOUT, text=True, **kw)
    if r.returncode != 0:
        sys.stderr.write("BUILD FAILED: %s\n%s\n" % (" ".join(cmd), r.stdout))
        raise SystemExit(2)
    return r.stdout


def file_hash(h, path):
    h.update(path.encode())
    with open(path, "rb") as f:
        h.update(f.read())


def tree_key(flavor, extra_files):
    h = hashlib.sha256()
    h.update(flavor.encode())
    h.update(" ".join(BASEFLAGS + FLAVORS[flavor]).encode())
    for p in sorted(glob.glob(os.path.join(REPO, "src", "*.[ch]"))):
        if os.path.basename(p) in ("base64u.c", "base64u.h"):
            continue  # generated
        file_hash(h, p)
    file_hash(h, os.path.join(REPO, "src", "Makefile"))
    for p in sorted(glob.glob(os.path.join(VERIF, "engine", "*.[ch]"))) + sorted(
            glob.glob(os.path.join(VERIF, "ref", "*.[ch]"))) + [os.path.abspath(__file__)]:
        file_hash(h, p)
    for p in extra_files:
        file_hash(h, p)
    return h.hexdigest()[:20]


def gen_base64u(outdir):
    """base64u.c is produced by the repository's own Makefile rule; run that rule's recipe
    (extracted from src/Makefile, so a change of the rule is picked up)."""
    mk = open(os.path.join(REPO, "src", "Makefile")).read().split("\n")
    recipe = []
    on = False
    for line in mk:
        if line.startswith("base64u.c:"):
            on = True
            continue
        if on:
            if line.startswith("\t"):
                recipe.append(line[1:].lstrip("@"))
            else:
                break
    if not recipe:
        sys.stderr.write("BUILD FAILED: no base64u.c rule in src/Makefile\n")
        raise SystemExit(2)
    out = os.path.join(outdir, "base64u.c")
    script = "\n".join(r.replace("$@", out).replace("< base64.c", "< %s/src/base64.c" % REPO) for r in recipe)
    script = script.replace("$$", "$")
    sh(["sh", "-c", script], cwd=os.path.join(REPO, "src"))
    return out


def compile_objs(d, flavor):
    cf = BASEFLAGS + FLAVORS[flavor] + ["-I" + os.path.join(REPO, "src"), "-I" + os.path.join(VERIF, "engine"),
                                       "-I" + os.path.join(VERIF, "ref")]
    b64u = gen_base64u(d)
    jobs = []
    for f in COMMON + SERVER_ONLY:
        src = b64u if f == "base64u" else os.path.join(REPO, "src", f + ".c")
        jobs.append(["gcc"] + cf + ["-c", src, "-o", os.path.join(d, f + ".o")])
    eng = os.path.join(VERIF, "engine")
    q = lambda p: '-D%s="%s"' % p
    jobs.append(["gcc"] + cf + [q(("IODINED_C", os.path.join(REPO, "src", "iodined.c"))), "-c",
                                os.path.join(eng, "swrap.c"), "-o", os.path.join(d, "swrap.o")])
    jobs.append(["gcc"] + cf + [q(("CLIENT_C", os.path.join(REPO, "src", "client.c"))), "-c",
                                os.path.join(eng, "cwrap.c"), "-o", os.path.join(d, "cwrap.o")])
    jobs.append(["gcc"] + cf + [q(("TUN_C", os.path.join(REPO, "src", "tun.c"))), "-c",
                                os.path.join(eng, "twrap.c"), "-o", os.path.join(d, "twrap.o")])
    jobs.append(["gcc"] + cf + ["-c", os.path.join(eng, "vw.c"), "-o", os.path.join(d, "vw.o")])
    jobs.append(["gcc"] + cf + ["-c", os.path.join(eng, "explore.c"), "-o", os.path.join(d, "explore.o")])
    jobs.append(["gcc"] + BASEFLAGS + ["-O3", "-c", os.path.join(eng, "hash.c"), "-o", os.path.join(d, "hash.o")])
    fb = os.path.join(d, "forbidden.c")
    with open(fb, "w") as f:
        f.write("void vw_forbidden_name(const char *);\n")
        for n in FORBIDDEN:
            f.write('void vw_forbidden_%s(void) { vw_forbidden_name("%s"); }\n' % (n, n))
    jobs.append(["gcc"] + cf + ["-c", fb, "-o", os.path.join(d, "forbidden.o")])
    for r in sorted(glob.glob(os.path.join(VERIF, "ref", "*.c"))):
        jobs.append(["gcc"] + cf + ["-c", r, "-o", os.path.join(d, "ref_" + os.path.basename(r)[:-2] + ".o")])
    procs = [(j, subprocess.Popen(j, stdout=subprocess.PIPE, stderr=subprocess.STDOUT, text=True)) for j in jobs]
    for j, p in procs:
        out, _ = p.communicate()
        if p.returncode != 0:
            sys.stderr.write("BUILD FAILED: %s\n%s\n" % (" ".join(j), out))
            raise SystemExit(2)
    return cf


def make_image(d, prefix, kind):
    objs = [os.path.join(d, f + ".o") for f in COMMON] + [os.path.join(d, "twrap.o")]
    if kind == "server":
        objs = [os.path.join(d, "swrap.o")] + objs + [os.path.join(d, f + ".o") for f in SERVER_ONLY]
    else:
        objs = [os.path.join(d, "cwrap.o")] + objs
    raw = os.path.join(d, prefix + ".raw.o")
    pre = os.path.join(d, prefix + ".pre.o")
    out = os.path.join(d, prefix + ".img.o")
    sh(["ld", "-r", "-o", raw] + objs)
    sh(["objcopy", "--rename-section", ".data=%sdata" % prefix, "--rename-section", ".bss=%sbss" % prefix,
        "--prefix-symbols=%s_" % prefix, raw, pre])
    undef = [l.split()[-1] for l in sh(["nm", "-u", pre]).split("\n") if l.strip()]
    mapf = os.path.join(d, prefix + ".map")
    with open(mapf, "w") as f:
        for u in undef:
            name = u[len(prefix) + 1:]
            if name in VWMAP:
                f.write("%s vw_%s\n" % (u, name))
            elif name in FORBIDDEN:
                f.write("%s vw_forbidden_%s\n" % (u, name))
            else:
                f.write("%s %s\n" % (u, name))
    sh(["objcopy", "--redefine-syms=" + mapf, pre, out])
    os.unlink(raw)
    os.unlink(pre)
    return out


def prune_old(keep):
    if not os.path.isdir(BUILD):
        return
    def mtime(p):
        try:
            return os.path.getmtime(p)
        except OSError:      # removed by a check running in parallel
            return 0.0
    ds = sorted((os.path.join(BUILD, x) for x in os.listdir(BUILD) if not x.startswith(".lock-")), key=mtime, reverse=True)
    now = time.time()
    for old in ds[keep:]:
        # another check (a scratch run against a changed tree, say) may still be using a directory it built a while ago
        if now - mtime(old) > 45 * 60:
            shutil.rmtree(old, ignore_errors=True)


def build(harness_c, flavor="asan", images=(("s", "server"), ("ca", "client")), extra_srcs=()):
    """Returns path of the linked harness binary (cached by content hash)."""
    harness_c = os.path.abspath(harness_c)
    # a harness may #include another one (ea2.c includes ea.c): all of props/ is part of the key
    key = tree_key(flavor, [harness_c] + [os.path.abspath(x) for x in extra_srcs] + sorted(glob.glob(os.path.join(VERIF, "props", "*.[ch]"))))
    imgkey = "-".join(p for p, _ in images)
    d = os.path.join(BUILD, "%s-%s" % (flavor, tree_key(flavor, [])))
    exe = os.path.join(d, "%s-%s-%s" % (os.path.basename(harness_c)[:-2], imgkey, key))
    if os.path.exists(exe):
        os.utime(d)
        return exe
    os.makedirs(d, exist_ok=True)
    # checks may run in parallel and share an object directory: one builder at a time per directory
    import fcntl
    lock = open(os.path.join(BUILD, ".lock-" + os.path.basename(d)), "w")
    fcntl.flock(lock, fcntl.LOCK_EX)
    if os.path.exists(exe):
        os.utime(d)
        return exe
    stamp = os.path.join(d, ".objs-done")
    if not os.path.exists(stamp):
        compile_objs(d, flavor)
        open(stamp, "w").write(time.ctime())
    cf = BASEFLAGS + FLAVORS[flavor] + ["-I" + os.path.join(REPO, "src"), "-I" + os.path.join(VERIF, "engine"),
                                       "-I" + os.path.join(VERIF, "ref")]
    imgs = []
    for prefix, kind in images:
        o = os.path.join(d, prefix + ".img.o")
        if not os.path.exists(o):
            make_image(d, prefix, kind)
        imgs.append(o)
    refs = sorted(glob.glob(os.path.join(d, "ref_*.o")))
    tmp = exe + ".tmp%d" % os.getpid()
    sh(["gcc"] + cf + ["-no-pie", harness_c] + list(extra_srcs) +
       [os.path.join(d, "vw.o"), os.path.join(d, "explore.o"), os.path.join(d, "hash.o"),
        os.path.join(d, "forbidden.o")] + refs + imgs +
       ["-lz", "-lm", "-o", tmp])
    os.rename(tmp, exe)
    prune_old(8)
    return exe


if __name__ == "__main__":
    import argparse
    ap = argparse.ArgumentParser()
    ap.add_argument("harness")
    ap.add_argument("--flavor", default="asan")
    ap.add_argument("--images", default="s:server,ca:client")
    a = ap.parse_args()
    imgs = tuple(tuple(x.split(":")) for x in a.images.split(",")) if a.images else ()
    print(build(a.harness, a.flavor, imgs))
