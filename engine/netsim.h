/* E-A "netsim": real server (proc 0, image s) + real client(s) (proc 1 image ca, proc 2 image cb)
 * running their real main loops in one virtual world, a configurable relay between them, and
 * per-datagram fate choice points for the explorer.  Header-only; see DESIGN.md 1.2-1.4. */
#ifndef NETSIM_H
#define NETSIM_H
#include <stdio.h>
#include <stdlib.h>
#include <string.h>
#include <ctype.h>
#include <zlib.h>
#include "vw.h"
#include "explore.h"
#include "images.h"
#include "hash.h"
#include "refdns.h"
#include "tmsg.h"

IMG_SERVER(s)
IMG_CLIENT(ca)
#ifdef NS_TWO_CLIENTS
IMG_CLIENT(cb)
#endif

#define NS_SRV_TUN 10
#define NS_SRV_FD 11
#define NS_CLI_TUN 20
#define NS_CLI_FD 21

enum { RC_KEEP = 0, RC_LOWER, RC_UPPER, RC_RANDOM };
enum { R8_CLEAN = 0, R8_STRIP, R8_REJECT };
enum { RP_KEEP = 0, RP_PLUS, RP_UNDERSCORE };

typedef struct ns_relay {
	int present;              /* 0 = client talks to the server directly */
	int idrewrite;            /* fresh id per forwarded query */
	int qcase, q8, qpunct;    /* transformation of query names */
	int acase, a8, apunct;    /* transformation of names / TXT text in answers */
	unsigned types;           /* bit i set = record type index i allowed (NULL,PRIVATE,TXT,SRV,MX,CNAME,A) ; 0 = all */
	int limit;                /* answers larger than this are dropped (512 for non-EDNS0 queries); 0 = no limit at all */
	int edns;                 /* 1 = honours EDNS0 (else limit 512 regardless) */
} ns_relay;

typedef struct ns_cfg {
	const char *qtype, *downenc;     /* "" = autodetect */
	int lazy, fragsize, maxlen, raw, selecttimeout;
	ns_relay relay;
	int lat_up, lat_down;            /* one-way latency in microseconds */
	int nclients;
	int ipv6;                        /* client and server talk over IPv6 (server listens on both families) */
	int preslots;                    /* this many slots are taken by other parties' version requests before client A starts: A gets userid preslots and tunnel address 10.0.0.(2+preslots) */
	int succession;                  /* client A works for a while, dies silently, and client B logs in 65 s later (takes over A's slot and address) */
	int netmask, check_ip;
	int warm;                        /* warm-up prefix id */
	const char *topdomain, *password;
} ns_cfg;

static ns_cfg NC;

/* ---- monitors' shared records ---- */
#define NS_MAXPK 1024
typedef struct ns_pk {
	int proc;                 /* tun it was read from / written to */
	int len; uint64_t h0, h1; /* hash of bytes from offset 4 */
	int tag;                  /* workload tag (read side) */
	int accepted;             /* read side: the program accepted it for transfer */
	int must;                 /* read side: fits in 16 fragments both ways -> must be delivered on a clean path */
	int dstproc;              /* read side: which process' tun it should come out of (-1 none) */
	int64_t at;
	int matched;              /* write side: index of the read record it equals, -1 if none */
} ns_pk;

static ns_pk ns_rd[NS_MAXPK]; static int ns_nrd;     /* packets read from tuns */
static ns_pk ns_wr[NS_MAXPK]; static int ns_nwr;     /* packets written to tuns */
static int ns_hs_result[3] = { -99, -99, -99 };
static int ns_choices_on;                            /* fate choice points enabled */
static int ns_srv_sock, ns_cli_sock[3], ns_srv_tun, ns_cli_tun[3];
static struct sockaddr_storage ns_srv_addr, ns_relay_front, ns_relay_back, ns_cli_addr[3];
static socklen_t ns_alen;
static long ns_ndgram_up, ns_ndgram_down;
static int ns_fatecount[8];
static int ns_trace;                                 /* print a transcript (replay mode) */
static const int *ns_must_by_tag;                    /* harness table: tag -> must be delivered on a clean path */

/* hooks a property harness can install */
static void (*ns_mon_send)(int d, int from_proc, int to_server);    /* every datagram as emitted (before relay/fate) */
static void (*ns_mon_srv_recv)(int d);                              /* every datagram handed to the server */
static void (*ns_mon_tun_write)(int proc, const unsigned char *data, int len, int matched_rd);
static int  (*ns_force_fate)(int d, int to_server);                 /* optional: fate decided by the harness (>= 0), -1 = none */
static int  (*ns_extra_fate)(int d, int to_server);                 /* optional extra choice logic; return 1 if it consumed d */
static void (*ns_viol)(const char *sig, const char *detail);        /* integrity violations found by the core monitor */
static void (*ns_install_hooks)(void);                              /* called after vw_init(), before any process runs */

/* relay bookkeeping */
typedef struct ns_rmap { int used; int newid, origid; struct sockaddr_storage client; unsigned char qname[256]; int qnlen; int qtype; int edns; } ns_rmap;
static ns_rmap ns_rm[64]; static int ns_rm_next; static int ns_relay_idseq = 0x3000;
/* dup-with-new-id bookkeeping when there is no relay: the network maps the answer back */
typedef struct ns_idmap { int used; int newid, origid; } ns_idmap;
static ns_idmap ns_idm[32]; static int ns_idm_next;

static const int NS_TYPES[7] = { 10, 65399, 16, 33, 15, 5, 1 };

/* ---------------------------------------------------------------- */
static int ns_case_char(int c, int mode, int pos)
{
	if (!isalpha(c) || c >= 0x80) return c;
	switch (mode) {
	case RC_LOWER: return tolower(c);
	case RC_UPPER: return toupper(c);
	case RC_RANDOM: return ((pos * 2654435761u) >> 13) & 1 ? toupper(c) : tolower(c);
	}
	return c;
}

static int ns_xform_byte(int c, int cmode, int m8, int punct, int pos)
{
	if (c >= 0x80 && m8 == R8_STRIP) c &= 0x7f;
	if (punct == RP_PLUS && c == '+') c = '-';
	if (punct == RP_UNDERSCORE && c == '_') c = '-';
	return ns_case_char(c, cmode, pos);
}

/* walk an uncompressed name at p; apply transform to label bytes; returns offset after name or -1 */
static int ns_xform_name(unsigned char *m, int len, int p, int cmode, int m8, int punct, int *has8)
{
	int guard = 0;
	while (p < len && guard++ < 130) {
		int l = m[p];
		if (l == 0) return p + 1;
		if ((l & 0xc0) == 0xc0) return p + 2;
		if (l > 63 || p + 1 + l > len) return -1;
		for (int i = 1; i <= l; i++) {
			if (m[p + i] >= 0x80 && has8) *has8 = 1;
			m[p + i] = ns_xform_byte(m[p + i], cmode, m8, punct, p + i);
		}
		p += 1 + l;
	}
	return -1;
}

/* transform all names / TXT strings of an answer in place; returns 1 if they contain bytes >= 0x80 */
static int ns_xform_answer(unsigned char *m, int len, const ns_relay *r)
{
	int has8 = 0;
	if (len < 12) return 0;
	int qd = (m[4] << 8) | m[5], an = (m[6] << 8) | m[7];
	int p = 12;
	for (int i = 0; i < qd; i++) { p = ns_xform_name(m, len, p, RC_KEEP, R8_CLEAN, RP_KEEP, NULL); if (p < 0) return has8; p += 4; }
	for (int i = 0; i < an; i++) {
		p = ns_xform_name(m, len, p, RC_KEEP, R8_CLEAN, RP_KEEP, NULL);
		if (p < 0 || p + 10 > len) return has8;
		int type = (m[p] << 8) | m[p + 1], rdlen = (m[p + 8] << 8) | m[p + 9];
		p += 10;
		if (p + rdlen > len) return has8;
		if (type == 5) ns_xform_name(m, p + rdlen, p, r->acase, r->a8, r->apunct, &has8);
		else if (type == 15) ns_xform_name(m, p + rdlen, p + 2, r->acase, r->a8, r->apunct, &has8);
		else if (type == 33) ns_xform_name(m, p + rdlen, p + 6, r->acase, r->a8, r->apunct, &has8);
		else if (type == 16) {
			int q = p;
			while (q < p + rdlen) {
				int l = m[q];
				if (q + 1 + l > p + rdlen) break;
				for (int k = 1; k <= l; k++) { if (m[q + k] >= 0x80) has8 = 1; m[q + k] = ns_xform_byte(m[q + k], r->acase, r->a8, r->apunct, q + k); }
				q += 1 + l;
			}
		}
		p += rdlen;
	}
	return has8;
}

static int ns_type_index(int t) { for (int i = 0; i < 7; i++) if (NS_TYPES[i] == t) return i; return -1; }

static void ns_route_final(int d, int sockidx, int64_t lat);

/* returns 1 if the datagram was consumed (forwarded / answered / dropped) by the relay */
static int ns_relay_handle(int d)
{
	vw_dgram *g = &W.dg[d];
	const ns_relay *r = &NC.relay;
	if (!r->present) return 0;
	if (vw_addr_eq(&g->dst, &ns_relay_front)) {
		/* query from a client */
		if (g->len < 17) { vw_dgram_free(d); return 1; }
		unsigned char *m = g->data;
		int has8 = 0;
		int qend = ns_xform_name(m, g->len, 12, RC_KEEP, R8_CLEAN, RP_KEEP, &has8);
		if (qend < 0 || qend + 4 > g->len) { vw_dgram_free(d); return 1; }
		int qtype = (m[qend] << 8) | m[qend + 1];
		int ti = ns_type_index(qtype);
		int refuse = (r->types && (ti < 0 || !(r->types & (1u << ti)))) || (has8 && r->q8 == R8_REJECT);
		int edns = g->len > qend + 4;
		if (refuse) {
			/* SERVFAIL straight back to the client */
			unsigned char ans[600];
			int n = qend + 4;
			memcpy(ans, m, n);
			ans[2] = 0x81; ans[3] = 0x82; ans[6] = ans[7] = ans[8] = ans[9] = ans[10] = ans[11] = 0;
			int a = vw_dgram_new(&ns_relay_front, ns_alen, &g->src, g->srclen, ans, n, -1);
			int si = vw_sock_find(&g->src);
			vw_dgram_free(d);
			if (si >= 0) ns_route_final(a, si, NC.lat_down); else vw_dgram_free(a);
			return 1;
		}
		ns_rmap *e = &ns_rm[ns_rm_next++ & 63];
		e->used = 1; e->origid = (m[0] << 8) | m[1];
		e->newid = r->idrewrite ? (ns_relay_idseq = (ns_relay_idseq * 31 + 7) & 0xffff ? (ns_relay_idseq * 31 + 7) & 0xffff : 1) : e->origid;
		memcpy(&e->client, &g->src, sizeof e->client);
		e->qnlen = qend - 12 > 255 ? 255 : qend - 12; memcpy(e->qname, m + 12, e->qnlen); e->qtype = qtype; e->edns = edns;
		ns_xform_name(m, g->len, 12, r->qcase, r->q8, r->qpunct, NULL);
		m[0] = e->newid >> 8; m[1] = e->newid;
		memcpy(&g->src, &ns_relay_back, sizeof g->src);
		memcpy(&g->dst, &ns_srv_addr, sizeof g->dst);
		return 0;         /* continue: deliver to the server */
	}
	if (vw_addr_eq(&g->dst, &ns_relay_back)) {
		/* answer from the server */
		if (g->len < 12) { vw_dgram_free(d); return 1; }
		int id = (g->data[0] << 8) | g->data[1];
		ns_rmap *e = NULL;
		for (int i = 0; i < 64; i++) if (ns_rm[i].used && ns_rm[i].newid == id) { e = &ns_rm[i]; }
		if (!e) { vw_dgram_free(d); return 1; }
		/* size limit: 0 = this relay imposes none; otherwise the configured limit applies to queries that
		 * advertised EDNS0 (if the relay honours it) and the classic 512 bytes to all others */
		int lim = r->limit;
		if (lim && (!r->edns || !e->edns)) lim = lim < 512 ? lim : 512;
		if (lim && g->len > lim) { vw_dgram_free(d); return 1; }
		if (ns_xform_answer(g->data, g->len, r) && r->a8 == R8_REJECT) { vw_dgram_free(d); return 1; }     /* a relay that refuses 8-bit data in answers */
		g->data[0] = e->origid >> 8; g->data[1] = e->origid;
		/* a resolver answers its client with the question the client asked */
		if (12 + e->qnlen <= g->len) memcpy(g->data + 12, e->qname, e->qnlen);
		memcpy(&g->src, &ns_relay_front, sizeof g->src);
		memcpy(&g->dst, &e->client, sizeof g->dst);
		e->used = r->idrewrite ? 0 : e->used;   /* forwards only the first answer per forwarded query when ids are fresh */
		return 0;
	}
	return 0;
}

/* ---------------------------------------------------------------- */
/* fates */
enum { F_ONTIME = 0, F_DROP, F_DUP, F_DUPNEWID, F_LATE30MS, F_LATE1S, F_LATE5S, F_NFATES };
static const char *NS_FATE[F_NFATES] = { "ontime", "drop", "dup", "dup-newid", "late30ms", "late1.2s", "late5s" };
static int ns_fate_mask = 0x7f;          /* which fates are enabled */

static void ns_route_final(int d, int sockidx, int64_t lat) { vw_deliver_at(d, sockidx, W.now + lat); }

static void ns_on_send(int d)
{
	vw_dgram *g = &W.dg[d];
	int from = g->from_proc;
	int to_server = (from != 0);
	if (ns_trace) {
		char nm[300] = ""; rd_msg *m = malloc(sizeof *m); char err[128];
		if (!rd_parse(g->data, g->len, m, err)) { rd_name_to_dotted(m->qname, m->qnamelen, nm, sizeof nm); nm[28] = 0; }
		printf("  t=%.6f %s dgram %4dB id=%02x%02x %s%s an=%d\n", W.now / 1e6, to_server ? "C->S" : "S->C", g->len, g->len > 1 ? g->data[0] : 0, g->len > 1 ? g->data[1] : 0,
		       g->len > 2 && (g->data[2] & 0x80) ? "A " : "Q ", nm, g->len > 7 ? g->data[7] : 0);
		free(m);
	}
	if (ns_mon_send) ns_mon_send(d, from, to_server);
	if (to_server) ns_ndgram_up++; else ns_ndgram_down++;
	if (ns_relay_handle(d)) return;
	g = &W.dg[d];
	/* answers to a dup-with-new-id are mapped back to the id the client knows */
	if (!to_server && !NC.relay.present && g->len >= 2) {
		int id = (g->data[0] << 8) | g->data[1];
		for (int i = 0; i < 32; i++) if (ns_idm[i].used && ns_idm[i].newid == id) { g->data[0] = ns_idm[i].origid >> 8; g->data[1] = ns_idm[i].origid; ns_idm[i].used = 0; break; }
	}
	int si = vw_sock_find(&g->dst);
	if (si < 0) { vw_dgram_free(d); return; }
	int64_t lat = to_server ? NC.lat_up : NC.lat_down;
	if (ns_extra_fate && ns_extra_fate(d, to_server)) return;
	int fate = F_ONTIME, forced = ns_force_fate ? ns_force_fate(d, to_server) : -1;
	if (forced >= 0) {
		fate = forced;
		int isdns = g->len >= 12 && !(g->len >= 3 && g->data[0] == 0x10 && g->data[1] == 0xd1 && g->data[2] == 0x9e);
		if (fate == F_DUPNEWID && (!isdns || !to_server)) fate = F_DUP;
	} else if (ns_choices_on) {
		int costs[F_NFATES];
		for (int i = 0; i < F_NFATES; i++) costs[i] = (i == 0) ? 0 : ((ns_fate_mask >> i) & 1) ? 1 : 1000;
		int isdns = g->len >= 12 && !(g->len >= 3 && g->data[0] == 0x10 && g->data[1] == 0xd1 && g->data[2] == 0x9e);
		if (!isdns || !to_server) costs[F_DUPNEWID] = 1000;      /* only queries get re-sent with a fresh id */
		fate = xp_choose(F_NFATES, costs);
	}
	ns_fatecount[fate]++;
	if (ns_trace && fate) printf("    fate: %s\n", NS_FATE[fate]);
	switch (fate) {
	case F_ONTIME: ns_route_final(d, si, lat); break;
	case F_DROP: vw_dgram_free(d); break;
	case F_DUP: { int c = vw_dgram_clone(d); ns_route_final(d, si, lat); ns_route_final(c, si, lat + 700); break; }
	case F_DUPNEWID: {
		int c = vw_dgram_clone(d);
		int id = (g->data[0] << 8) | g->data[1], nid = (id ^ 0x5a5a) ? (id ^ 0x5a5a) : 0x1111;
		W.dg[c].data[0] = nid >> 8; W.dg[c].data[1] = nid;
		if (NC.relay.present) {
			/* the relay itself re-asks with a fresh id: same mapping target */
			for (int i = 0; i < 64; i++) if (ns_rm[i].used && ns_rm[i].newid == id) { ns_rmap *e = &ns_rm[ns_rm_next++ & 63]; *e = ns_rm[i]; e->newid = nid; break; }
		} else { ns_idmap *e = &ns_idm[ns_idm_next++ & 31]; e->used = 1; e->newid = nid; e->origid = id; }
		ns_route_final(d, si, lat); ns_route_final(c, si, lat + 900);
		break;
	}
	case F_LATE30MS: ns_route_final(d, si, lat + 30000); break;
	case F_LATE1S: ns_route_final(d, si, lat + 1200000); break;
	case F_LATE5S: ns_route_final(d, si, lat + 5000000); break;
	}
}

/* ---------------------------------------------------------------- */
/* tun monitors */

static void ns_pkhash(const unsigned char *data, int len, uint64_t *h0, uint64_t *h1)
{
	h128 h; uint64_t o[2];
	h128_init(&h);
	if (len > 4) h128_update(&h, data + 4, len - 4);
	h128_final(&h, o);
	*h0 = o[0]; *h1 = o[1];
}

static int ns_proc_of_tunip(uint32_t ip_netorder)
{
	/* tunnel addresses: server 10.0.0.1, clients get 10.0.0.2, 10.0.0.3 in login order */
	uint32_t a = ntohl(ip_netorder);
	if (a == 0x0A000001) return 0;
	if (NC.preslots) return a == 0x0A000002u + (uint32_t)NC.preslots ? 1 : -1;
	if (a == 0x0A000002) return NC.succession ? 2 : 1;
	if (a == 0x0A000003) return NC.succession ? -1 : 2;
	return -1;
}

static void ns_on_tun_read(int proc, const unsigned char *data, int len, int tag)
{
	if (ns_nrd >= NS_MAXPK) return;
	if (ns_trace) printf("  t=%.6f proc %d READS tun packet tag %d (%d bytes)\n", W.now / 1e6, proc, tag, len);
	ns_pk *p = &ns_rd[ns_nrd++];
	memset(p, 0, sizeof *p);
	p->proc = proc; p->len = len; p->tag = tag; p->at = W.now; p->matched = -1;
	ns_pkhash(data, len, &p->h0, &p->h1);
	p->dstproc = -1;
	p->must = (ns_must_by_tag && tag > 0 && tag < NS_MAXPK) ? ns_must_by_tag[tag] : 0;
	if (len >= 24) { uint32_t dst; memcpy(&dst, data + 20, 4); p->dstproc = ns_proc_of_tunip(dst); }
	if (proc == 0) {
		/* server: accepted iff routable to a live session with room (outpacket free or queue not full) */
		int u = -1;
		if (len >= 24) { uint32_t dst; memcpy(&dst, data + 20, 4); u = s_find_user_by_ip(dst); }
		if (u >= 0) {
			struct tun_user *us = s_w_users();
			p->accepted = us[u].conn == CONN_RAW_UDP ? 1 : (us[u].outpacket.len == 0 || us[u].outpacketq_filled < OUTPACKETQ_LEN);
		}
	} else if (proc == 1) p->accepted = !ca_w_is_sending();
#ifdef NS_TWO_CLIENTS
	else if (proc == 2) p->accepted = !cb_w_is_sending();
#endif
}

static void ns_on_tun_write(int proc, const unsigned char *data, int len)
{
	uint64_t h0, h1;
	int matched = -1;
	ns_pkhash(data, len, &h0, &h1);
	for (int i = 0; i < ns_nrd; i++)
		if (ns_rd[i].proc != proc && ns_rd[i].len == len && ns_rd[i].h0 == h0 && ns_rd[i].h1 == h1) { matched = i; break; }
	if (ns_trace) printf("  t=%.6f proc %d WRITES tun packet %d bytes, matches read #%d (tag %d)\n", W.now / 1e6, proc, len, matched, matched >= 0 ? ns_rd[matched].tag : -1);
	int hdr_ok = len >= 4 && data[0] == 0 && data[1] == 0 && data[2] == 8 && data[3] == 0;
	if (ns_nwr < NS_MAXPK) {
		ns_pk *p = &ns_wr[ns_nwr++];
		memset(p, 0, sizeof *p);
		p->proc = proc; p->len = len; p->h0 = h0; p->h1 = h1; p->at = W.now; p->matched = matched;
		p->tag = matched >= 0 ? ns_rd[matched].tag : -1;
	}
	if (ns_viol) {
		char detail[200];
		if (matched < 0) {
			snprintf(detail, sizeof detail, "proc %d wrote %d bytes to its tun at t=%.3f that no peer ever read from its tun (first bytes %02x%02x%02x%02x %02x%02x)",
				 proc, len, W.now / 1e6, len > 0 ? data[0] : 0, len > 1 ? data[1] : 0, len > 2 ? data[2] : 0, len > 3 ? data[3] : 0, len > 4 ? data[4] : 0, len > 5 ? data[5] : 0);
			ns_viol("fabricated-or-corrupted-packet", detail);
		} else if (!hdr_ok) {
			snprintf(detail, sizeof detail, "proc %d wrote a packet with tun header %02x%02x%02x%02x", proc, data[0], data[1], data[2], data[3]);
			ns_viol("bad-tun-header", detail);
		}
	}
	if (ns_mon_tun_write) ns_mon_tun_write(proc, data, len, matched);
}

/* ---------------------------------------------------------------- */
/* processes */

static void ns_server_main(void *arg)
{
	(void)arg;
	struct w_server_cfg c = { .topdomain = NC.topdomain, .password = NC.password, .my_ip = "10.0.0.1", .netmask = NC.preslots ? 27 : NC.netmask,
		.mtu = 1130, .check_ip = NC.check_ip, .srand_seed = 7 };
	s_w_tun_set_ifname("dns0");
	s_w_init(&c);
	s_w_run(NS_SRV_TUN, NS_SRV_FD, NC.ipv6 ? NS_SRV_FD + 1 : -1, 0);
}

static void ns_fill_client_cfg(struct w_client_cfg *c, int which)
{
	memset(c, 0, sizeof *c);
	const struct sockaddr_storage *ns = NC.relay.present ? &ns_relay_front : &ns_srv_addr;
	memcpy(&c->nameserv, ns, sizeof *ns); c->nameserv_len = ns_alen;
	c->topdomain = NC.topdomain; c->password = NC.password;
	c->qtype = NC.qtype; c->downenc = NC.downenc;
	c->selecttimeout = NC.lazy ? NC.selecttimeout : 1; c->lazymode = NC.lazy; c->hostname_maxlen = NC.maxlen;
	c->srand_seed = 99 + 1000 * which;
}

static void ns_client_a_main(void *arg)
{
	(void)arg;
	struct w_client_cfg c;
	ns_fill_client_cfg(&c, 0);
	ca_w_tun_set_ifname("dns0");
	ca_w_setup(&c);
	ns_hs_result[1] = ca_w_handshake(NS_CLI_FD, NC.raw, NC.fragsize == 0, NC.fragsize ? NC.fragsize : 3072);
	if (ns_hs_result[1] == 0) ca_w_tunnel(NS_CLI_TUN, NS_CLI_FD);
}

#ifdef NS_TWO_CLIENTS
static void ns_client_b_main(void *arg)
{
	(void)arg;
	struct w_client_cfg c;
	ns_fill_client_cfg(&c, 1);
	cb_w_tun_set_ifname("dns1");
	cb_w_setup(&c);
	ns_hs_result[2] = cb_w_handshake(NS_CLI_FD + 10, NC.raw, NC.fragsize == 0, NC.fragsize ? NC.fragsize : 3072);
	if (ns_hs_result[2] == 0) cb_w_tunnel(NS_CLI_TUN + 10, NS_CLI_FD + 10);
}
#endif

static void ns_defaults(ns_cfg *c)
{
	memset(c, 0, sizeof *c);
	c->qtype = ""; c->downenc = ""; c->lazy = 1; c->fragsize = 0; c->maxlen = 255; c->raw = 0; c->selecttimeout = 4;
	c->lat_up = 3000; c->lat_down = 3000; c->nclients = 1; c->netmask = 29; c->check_ip = 1;
	c->topdomain = "t.example.com"; c->password = "secret";
}

/* boots the world and runs the real handshake(s) on a clean path; returns 0 if all clients are tunnelling */
static int ns_mkpkt(unsigned char *p, int iplen, uint32_t dst_hostorder, int tag, int compressible);
static int ns_boot(const ns_cfg *cfg, int64_t hs_deadline)
{
	NC = *cfg;
	vw_init();
	W.verbose = getenv("VERIF_VERBOSE") != NULL;
	ns_nrd = ns_nwr = 0; ns_choices_on = 0;
	memset(ns_rm, 0, sizeof ns_rm); memset(ns_idm, 0, sizeof ns_idm);
	memset(ns_fatecount, 0, sizeof ns_fatecount);
	ns_hs_result[0] = ns_hs_result[1] = ns_hs_result[2] = -99;
	W.hooks.on_send = ns_on_send;
	W.hooks.on_tun_read = ns_on_tun_read;
	W.hooks.on_tun_write = ns_on_tun_write;
	if (ns_install_hooks) ns_install_hooks();
	vw_mkaddr(&ns_srv_addr, &ns_alen, "192.0.2.1", 53);
	vw_mkaddr(&ns_relay_front, &ns_alen, "203.0.113.53", 53);
	vw_mkaddr(&ns_relay_back, &ns_alen, "203.0.113.53", 5353);
	vw_mkaddr(&ns_cli_addr[1], &ns_alen, "198.51.100.7", 40000);
	vw_mkaddr(&ns_cli_addr[2], &ns_alen, "198.51.100.8", 40001);
	ns_srv_sock = vw_sock_open(0, NS_SRV_FD, "192.0.2.1", 53);
	if (NC.ipv6) {
		vw_mkaddr6(&ns_srv_addr, &ns_alen, "2001:db8::53", 53);
		vw_mkaddr6(&ns_cli_addr[1], &ns_alen, "2001:db8:1::7", 40000);
		vw_mkaddr6(&ns_cli_addr[2], &ns_alen, "2001:db8:1::8", 40001);
		ns_srv_sock = vw_sock_open6(0, NS_SRV_FD + 1, "2001:db8::53", 53);
	}
	ns_srv_tun = vw_tun_open(0, NS_SRV_TUN);
	ns_cli_sock[1] = NC.ipv6 ? vw_sock_open6(1, NS_CLI_FD, "2001:db8:1::7", 40000) : vw_sock_open(1, NS_CLI_FD, "198.51.100.7", 40000);
	ns_cli_tun[1] = vw_tun_open(1, NS_CLI_TUN);
	/* succession: the relay of the configuration is the second client's path; the first client reaches the server directly */
	ns_relay late_relay = NC.relay;
	if (NC.succession) memset(&NC.relay, 0, sizeof NC.relay);
	vw_spawn(0, ns_server_main, NULL);
	if (NC.preslots) {
		/* other parties' version requests take the first slots (each from its own address, straight to the server) */
		vw_run_quiescent(0);
		for (int i = 0; i < NC.preslots; i++) {
			struct sockaddr_storage fa; socklen_t fl; char ip[40]; uint8_t pkt[700];
			if (NC.ipv6) { snprintf(ip, sizeof ip, "2001:db8:9::%x", 0x100 + i); vw_mkaddr6(&fa, &fl, ip, 41000 + i); }
			else { snprintf(ip, sizeof ip, "203.0.113.%d", 10 + i); vw_mkaddr(&fa, &fl, ip, 41000 + i); }
			int n = tm_version(pkt, 0x3300 + i, 10, 0x00000502, 0x77 + i, NC.topdomain);
			int d = vw_dgram_new(&fa, fl, &ns_srv_addr, ns_alen, pkt, n, -1);
			vw_deliver_now(d, ns_srv_sock);
			vw_run_quiescent(0);
		}
	}
	vw_spawn(1, ns_client_a_main, NULL);
	while (ns_hs_result[1] == -99 && W.now < hs_deadline && vw_alive(1) && vw_step()) ;
	if (ns_hs_result[1] != 0) return -1;
#ifdef NS_TWO_CLIENTS
	if (NC.succession) {
		/* A carries some traffic and is cut off in the middle of a multi-fragment packet in each direction */
		unsigned char p[3000];
		int n = ns_mkpkt(p, 1500, 0x0A000002, 900, 0); vw_tun_offer_at(ns_srv_tun, W.now + 20000, p, n, 900);
		n = ns_mkpkt(p, 700, 0x0A000001, 901, 0); vw_tun_offer_at(ns_cli_tun[1], W.now + 21000, p, n, 901);
		n = ns_mkpkt(p, 60, 0x0A000002, 902, 0); vw_tun_offer_at(ns_srv_tun, W.now + 22000, p, n, 902);
		int64_t until = W.now + 20000 + NC.lat_up * 3 + NC.lat_down * 2 + 1500;
		while (vw_next_time() != VW_NEVER && vw_next_time() <= until && vw_step()) ;
		vw_kill(1);
		until = W.now + 65 * 1000000LL;
		while (vw_next_time() != VW_NEVER && vw_next_time() <= until && vw_step()) ;
		if (W.now < until) vw_run_until(until);
		ns_nrd = ns_nwr = 0;          /* A's packets are history: the monitors judge the second session */
		NC.relay = late_relay;
	}
	if (NC.nclients > 1) {
		ns_cli_sock[2] = NC.ipv6 ? vw_sock_open6(2, NS_CLI_FD + 10, "2001:db8:1::8", 40001) : vw_sock_open(2, NS_CLI_FD + 10, "198.51.100.8", 40001);
		ns_cli_tun[2] = vw_tun_open(2, NS_CLI_TUN + 10);
		vw_spawn(2, ns_client_b_main, NULL);
		int64_t dl = W.now + hs_deadline;
		while (ns_hs_result[2] == -99 && W.now < dl && vw_alive(2) && vw_step()) ;
		if (ns_hs_result[2] != 0) return -2;
	}
#endif
	return 0;
}

/* workload packets: IPv4 frame with tun header, unique payload per tag */
static int ns_mkpkt(unsigned char *p, int iplen, uint32_t dst_hostorder, int tag, int compressible)
{
	memset(p, 0, 4 + iplen);
	p[2] = 0x08;
	unsigned x = 88172645u + 7919u * tag;
	for (int i = 4; i < 4 + iplen; i++) {
		if (compressible) p[i] = (unsigned char)(tag * 16 + ((i / 64) & 3));
		else { x ^= x << 13; x ^= x >> 17; x ^= x << 5; p[i] = x; }
	}
	if (iplen >= 1) p[4] = 0x45;
	if (iplen >= 12) { p[4 + 8] = tag; p[4 + 9] = tag >> 8; p[4 + 10] = 0xEE; p[4 + 11] = compressible; }
	if (iplen >= 20) { uint32_t d = htonl(dst_hostorder); memcpy(p + 4 + 16, &d, 4); }
	return 4 + iplen;
}

static int ns_compressed_len(const unsigned char *p, int len)
{
	static unsigned char out[70000];
	unsigned long ol = sizeof out;
	compress2(out, &ol, p, len, 9);
	return (int)ol;
}

/* monitor + relay state that is not in the images: part of the exact-state key */
static void ns_hash_extra(h128 *h)
{
	h128_update(h, &ns_nrd, sizeof ns_nrd);
	for (int i = 0; i < ns_nrd; i++) { h128_update(h, &ns_rd[i].h0, 8); h128_update(h, &ns_rd[i].accepted, 4); h128_update(h, &ns_rd[i].proc, 4); }
	h128_update(h, &ns_nwr, sizeof ns_nwr);
	for (int i = 0; i < ns_nwr; i++) { h128_update(h, &ns_wr[i].h0, 8); h128_update(h, &ns_wr[i].proc, 4); }
	h128_update(h, ns_rm, sizeof ns_rm); h128_update(h, ns_idm, sizeof ns_idm);
	h128_update(h, &ns_relay_idseq, sizeof ns_relay_idseq);
}

#endif
