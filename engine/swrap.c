/* Server image wrapper: the real iodined.c is included verbatim; main() is renamed
 * so that the harness can initialise the statics the way main() does and then run
 * the real tunnel() loop.  Only read-only accessors and thin call-throughs are added. */
#define main iodined_real_main
#include IODINED_C
#undef main

#include "wrap_api.h"

void w_init(const struct w_server_cfg *c)
{
	char *errormsg = NULL;
	running = 1;
	topdomain = strdup(c->topdomain);
	if (check_topdomain(topdomain, 1, &errormsg)) errx(2, "Invalid topdomain: %s", errormsg);
	memset(password, 0, sizeof(password));
	strncpy(password, c->password, sizeof(password));
	password[sizeof(password) - 1] = 0;
	check_ip = c->check_ip;
	my_mtu = c->mtu;
	my_ip = inet_addr(c->my_ip);
	netmask = c->netmask;
	ns_ip = c->ns_ip ? inet_addr(c->ns_ip) : INADDR_ANY;
	bind_port = c->bind_port;
	debug = c->debug;
	srand(c->srand_seed);
	fw_query_init();
	created_users = init_users(my_ip, netmask);
}

int w_run(int tun_fd, int v4fd, int v6fd, int bind_fd)
{
	struct dnsfd fds;
	fds.v4fd = v4fd;
	fds.v6fd = v6fd;
	return tunnel(tun_fd, &fds, bind_fd, 0);
}

struct tun_user *w_users(void) { return users; }
int w_created_users(void) { return created_users; }
size_t w_user_size(void) { return sizeof(struct tun_user); }
int w_check_ip(void) { return check_ip; }
const char *w_password(void) { return password; }

void w_write_dns(int fd, struct query *q, const char *data, int datalen, char downenc)
{
	write_dns(fd, q, data, datalen, downenc);
}

int w_real_main(int argc, char **argv) { return iodined_real_main(argc, argv); }
