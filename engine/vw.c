/* Virtual world: see vw.h / DESIGN.md 1.2.
 * All environment calls of the iodine images end up here. */
#define _GNU_SOURCE
#include <stdio.h>
#include <stdlib.h>
#include <string.h>
#include <stdarg.h>
#include <errno.h>
#include <time.h>
#include <unistd.h>
#include <ucontext.h>
#include <setjmp.h>
#include <sys/mman.h>
#include <sys/uio.h>
#include <arpa/inet.h>
#include <netinet/in.h>

#include "vw.h"
#include "hash.h"

#if defined(__SANITIZE_ADDRESS__)
#define VW_ASAN 1
void __sanitizer_start_switch_fiber(void **fake_stack_save, const void *bottom, size_t size);
void __sanitizer_finish_switch_fiber(void *fake_stack_save, const void **bottom_old, size_t *size_old);
#else
#define VW_ASAN 0
#endif

vw_world W;

static ucontext_t sched_ctx;
static ucontext_t proc_ctx[VW_MAXPROC];
static void *sched_fake, *proc_fake[VW_MAXPROC];
static const void *sched_stack_bottom; static size_t sched_stack_size;

struct section { const char *name; char *start, *stop; };
static struct section sections[16];
static int nsections;

void vw_fatal(const char *fmt, ...)
{
	va_list ap;
	char buf[512];
	va_start(ap, fmt);
	vsnprintf(buf, sizeof buf, fmt, ap);
	va_end(ap);
	dprintf(1, "HARNESS-ERROR %s\n", buf);
	dprintf(2, "HARNESS-ERROR %s\n", buf);
	_exit(2);
}

void vw_init(void)
{
	memset(&W, 0, sizeof W);
	W.cur = -1;
	nsections = 0;
}

void vw_register_section(const char *name, void *start, void *stop)
{
	if (nsections >= 16) vw_fatal("too many sections");
	sections[nsections].name = name;
	sections[nsections].start = start;
	sections[nsections].stop = stop;
	nsections++;
}

/* ------------------------------------------------------------------ */
/* addresses */

void vw_mkaddr(struct sockaddr_storage *ss, socklen_t *len, const char *ip, int port)
{
	struct sockaddr_in *a = (struct sockaddr_in *)ss;
	memset(ss, 0, sizeof *ss);
	a->sin_family = AF_INET;
	a->sin_port = htons(port);
	if (inet_pton(AF_INET, ip, &a->sin_addr) != 1) vw_fatal("bad ip %s", ip);
	if (len) *len = sizeof *a;
}

void vw_mkaddr6(struct sockaddr_storage *ss, socklen_t *len, const char *ip6, int port)
{
	struct sockaddr_in6 *a = (struct sockaddr_in6 *)ss;
	memset(ss, 0, sizeof *ss);
	a->sin6_family = AF_INET6;
	a->sin6_port = htons(port);
	if (inet_pton(AF_INET6, ip6, &a->sin6_addr) != 1) vw_fatal("bad ip6 %s", ip6);
	if (len) *len = sizeof *a;
}

int vw_addr_eq(const struct sockaddr_storage *a, const struct sockaddr_storage *b)
{
	if (a->ss_family != b->ss_family) return 0;
	if (a->ss_family == AF_INET) {
		const struct sockaddr_in *x = (const void *)a, *y = (const void *)b;
		return x->sin_port == y->sin_port && x->sin_addr.s_addr == y->sin_addr.s_addr;
	}
	if (a->ss_family == AF_INET6) {
		const struct sockaddr_in6 *x = (const void *)a, *y = (const void *)b;
		return x->sin6_port == y->sin6_port && !memcmp(&x->sin6_addr, &y->sin6_addr, 16);
	}
	return 0;
}

const char *vw_addr_str(const struct sockaddr_storage *a)
{
	static char buf[4][80];
	static int k;
	char ip[64] = "?";
	char *o = buf[k++ & 3];
	if (a->ss_family == AF_INET) {
		const struct sockaddr_in *x = (const void *)a;
		inet_ntop(AF_INET, &x->sin_addr, ip, sizeof ip);
		snprintf(o, 80, "%s:%d", ip, ntohs(x->sin_port));
	} else if (a->ss_family == AF_INET6) {
		const struct sockaddr_in6 *x = (const void *)a;
		inet_ntop(AF_INET6, &x->sin6_addr, ip, sizeof ip);
		snprintf(o, 80, "[%s]:%d", ip, ntohs(x->sin6_port));
	} else snprintf(o, 80, "af%d", a->ss_family);
	return o;
}

/* ------------------------------------------------------------------ */
/* objects */

int vw_sock_open(int proc, int fd, const char *ip, int port)
{
	for (int i = 0; i < VW_MAXSOCK; i++) if (!W.sock[i].used) {
		vw_sock *s = &W.sock[i];
		memset(s, 0, sizeof *s);
		s->used = 1; s->proc = proc; s->fd = fd;
		vw_mkaddr(&s->addr, &s->addrlen, ip, port);
		return i;
	}
	vw_fatal("no socket slot");
}

int vw_sock_open6(int proc, int fd, const char *ip6, int port)
{
	for (int i = 0; i < VW_MAXSOCK; i++) if (!W.sock[i].used) {
		vw_sock *s = &W.sock[i];
		memset(s, 0, sizeof *s);
		s->used = 1; s->proc = proc; s->fd = fd;
		vw_mkaddr6(&s->addr, &s->addrlen, ip6, port);
		return i;
	}
	vw_fatal("no socket slot");
}

int vw_tun_open(int proc, int fd)
{
	for (int i = 0; i < VW_MAXTUN; i++) if (!W.tun[i].used) {
		vw_tun *t = &W.tun[i];
		memset(t, 0, sizeof *t);
		t->used = 1; t->proc = proc; t->fd = fd;
		return i;
	}
	vw_fatal("no tun slot");
}

static vw_sock *find_sock_fd(int proc, int fd)
{
	for (int i = 0; i < VW_MAXSOCK; i++)
		if (W.sock[i].used && W.sock[i].proc == proc && W.sock[i].fd == fd) return &W.sock[i];
	return NULL;
}

static vw_tun *find_tun_fd(int proc, int fd)
{
	for (int i = 0; i < VW_MAXTUN; i++)
		if (W.tun[i].used && W.tun[i].proc == proc && W.tun[i].fd == fd) return &W.tun[i];
	return NULL;
}

int vw_sock_find(const struct sockaddr_storage *addr)
{
	for (int i = 0; i < VW_MAXSOCK; i++)
		if (W.sock[i].used && vw_addr_eq(&W.sock[i].addr, addr)) return i;
	return -1;
}

int vw_dgram_new(const struct sockaddr_storage *src, socklen_t srclen,
		 const struct sockaddr_storage *dst, socklen_t dstlen,
		 const void *data, int len, int from_proc)
{
	for (int i = 0; i < VW_MAXDGRAM; i++) if (!W.dg[i].used) {
		vw_dgram *d = &W.dg[i];
		memset(d, 0, sizeof *d);
		d->used = 1; d->seq = ++W.dgseq;
		memcpy(&d->src, src, sizeof *src); d->srclen = srclen;
		memcpy(&d->dst, dst, sizeof *dst); d->dstlen = dstlen;
		d->len = len; d->from_proc = from_proc; d->sent_at = W.now;
		d->data = malloc(len ? len : 1);
		if (len) memcpy(d->data, data, len);
		return i;
	}
	vw_fatal("datagram arena full");
}

int vw_dgram_clone(int di)
{
	vw_dgram *d = &W.dg[di];
	return vw_dgram_new(&d->src, d->srclen, &d->dst, d->dstlen, d->data, d->len, d->from_proc);
}

void vw_dgram_free(int di)
{
	if (!W.dg[di].used) vw_fatal("double free of datagram %d", di);
	free(W.dg[di].data);
	W.dg[di].data = NULL;
	W.dg[di].used = 0;
}

static int ev_new(int64_t at, int kind)
{
	for (int i = 0; i < VW_MAXEVENTS; i++) if (!W.ev[i].used) {
		vw_event *e = &W.ev[i];
		memset(e, 0, sizeof *e);
		e->used = 1; e->at = at; e->kind = kind; e->seq = ++W.evseq;
		return i;
	}
	vw_fatal("event arena full");
}

void vw_deliver_at(int d, int sockidx, int64_t at)
{
	int e = ev_new(at, VW_EV_DELIVER);
	W.ev[e].a = d; W.ev[e].b = sockidx;
}

void vw_deliver_now(int d, int sockidx)
{
	vw_sock *s = &W.sock[sockidx];
	if (s->qn >= 256) { vw_dgram_free(d); return; }   /* receive queue overflow: kernel drops */
	s->q[(s->qh + s->qn) & 255] = d;
	s->qn++;
	W.ndelivered++;
}

void vw_tun_offer_at(int tunidx, int64_t at, const void *pkt, int len, int tag)
{
	int e = ev_new(at, VW_EV_TUN);
	W.ev[e].a = tunidx; W.ev[e].b = tag;
	W.ev[e].pkt = malloc(len ? len : 1);
	memcpy(W.ev[e].pkt, pkt, len);
	W.ev[e].pktlen = len;
}

void vw_callback_at(int64_t at, int a, int b)
{
	int e = ev_new(at, VW_EV_CALLBACK);
	W.ev[e].a = a; W.ev[e].b = b;
}

/* ------------------------------------------------------------------ */
/* coroutines */

static void switch_to_sched(int p, int final)
{
#if VW_ASAN
	__sanitizer_start_switch_fiber(final ? NULL : &proc_fake[p], sched_stack_bottom, sched_stack_size);
#endif
	swapcontext(&proc_ctx[p], &sched_ctx);
#if VW_ASAN
	__sanitizer_finish_switch_fiber(proc_fake[p], &sched_stack_bottom, &sched_stack_size);
#endif
}

static void trampoline(void)
{
	int p = W.cur;
#if VW_ASAN
	__sanitizer_finish_switch_fiber(NULL, &sched_stack_bottom, &sched_stack_size);
#endif
	W.proc[p].entry(W.proc[p].arg);
	W.proc[p].state = VW_P_RETURNED;
	for (;;) switch_to_sched(p, 0);   /* never resumed */
}

int vw_spawn(int p, void (*entry)(void *), void *arg)
{
	vw_proc *pr = &W.proc[p];
	if (pr->state != VW_P_UNUSED) vw_fatal("proc %d in use", p);
	pr->entry = entry; pr->arg = arg;
	pr->stacksz = VW_STACK;
	pr->stack = mmap(NULL, pr->stacksz + 8192, PROT_READ | PROT_WRITE,
			 MAP_PRIVATE | MAP_ANONYMOUS, -1, 0);
	if (pr->stack == MAP_FAILED) vw_fatal("mmap stack");
	mprotect(pr->stack, 4096, PROT_NONE);            /* guard page below the stack */
	pr->stack += 4096;
	pr->rand_state = 12345u + 1000u * p;
	getcontext(&proc_ctx[p]);
	proc_ctx[p].uc_stack.ss_sp = pr->stack;
	proc_ctx[p].uc_stack.ss_size = pr->stacksz;
	proc_ctx[p].uc_link = NULL;
	makecontext(&proc_ctx[p], trampoline, 0);
#if VW_ASAN
	/* ASan's swapcontext() interceptor wipes the shadow of the whole target stack (uc_stack) on every switch "to avoid false
	 * positives": the redzones of every frame that is alive across a select() - the handshake functions' in[4096], say - were
	 * gone after the first switch and an overflow of such a buffer went unseen.  swapcontext() itself does not need uc_stack
	 * once makecontext() has set up the registers, and the fiber switches are announced properly (start/finish_switch_fiber). */
	proc_ctx[p].uc_stack.ss_sp = NULL;
	proc_ctx[p].uc_stack.ss_size = 0;
#endif
	pr->state = VW_P_READY;
	pr->deadline = VW_NEVER;
	return p;
}

extern volatile long xp_progress __attribute__((weak));
static void resume(int p)
{
	if (W.cur != -1) vw_fatal("nested resume");
	W.cur = p;
	if (&xp_progress) xp_progress++;
#if VW_ASAN
	__sanitizer_start_switch_fiber(&sched_fake, W.proc[p].stack, W.proc[p].stacksz);
#endif
	swapcontext(&sched_ctx, &proc_ctx[p]);
#if VW_ASAN
	__sanitizer_finish_switch_fiber(sched_fake, NULL, NULL);
#endif
	W.cur = -1;
	if (W.hooks.after_run) W.hooks.after_run(p);
}

/* the process disappears without a word (power loss, kill -9): it is never scheduled again */
void vw_kill(int p)
{
	if (W.cur == p) vw_fatal("vw_kill of the running process");
	W.proc[p].state = VW_P_EXITED; W.proc[p].exit_code = -9;
}

int vw_alive(int p)
{
	int s = W.proc[p].state;
	return s == VW_P_READY || s == VW_P_SELECT || s == VW_P_SLEEP;
}

/* ------------------------------------------------------------------ */
/* scheduler */

static int fd_ready(int p, int fd)
{
	vw_sock *s = find_sock_fd(p, fd);
	if (s) return s->qn > 0;
	vw_tun *t = find_tun_fd(p, fd);
	if (t) return t->rxn > 0;
	return 0;
}

static int proc_has_ready_fd(int p)
{
	vw_proc *pr = &W.proc[p];
	if (pr->state != VW_P_SELECT || !pr->rfds) return 0;
	for (int fd = 0; fd < pr->nfds; fd++)
		if (FD_ISSET(fd, pr->rfds) && fd_ready(p, fd)) return 1;
	return 0;
}

static int next_event(void)
{
	int best = -1;
	for (int i = 0; i < VW_MAXEVENTS; i++) {
		vw_event *e = &W.ev[i];
		if (!e->used) continue;
		if (best < 0) { best = i; continue; }
		vw_event *b = &W.ev[best];
		if (e->at < b->at || (e->at == b->at && (e->kind < b->kind ||
		    (e->kind == b->kind && e->seq < b->seq)))) best = i;
	}
	return best;
}

int64_t vw_next_time(void)
{
	int64_t t = VW_NEVER;
	int e = next_event();
	if (e >= 0) t = W.ev[e].at;
	for (int p = 0; p < VW_MAXPROC; p++) {
		vw_proc *pr = &W.proc[p];
		if (pr->state == VW_P_READY) return W.now;
		if (pr->state == VW_P_SELECT && proc_has_ready_fd(p)) return W.now;
		if ((pr->state == VW_P_SELECT || pr->state == VW_P_SLEEP) && pr->deadline < t) t = pr->deadline;
	}
	return t;
}

static void apply_event(int ei)
{
	vw_event *e = &W.ev[ei];
	int kind = e->kind, a = e->a, b = e->b;
	unsigned char *pkt = e->pkt; int pktlen = e->pktlen;
	e->used = 0; e->pkt = NULL;
	switch (kind) {
	case VW_EV_DELIVER:
		vw_deliver_now(a, b);
		break;
	case VW_EV_TUN: {
		vw_tun *t = &W.tun[a];
		if (t->rxn < 64) {
			vw_tunpkt *tp = &t->rx[(t->rxh + t->rxn) & 63];
			tp->data = pkt; tp->len = pktlen; tp->tag = b;
			t->rxn++;
		} else free(pkt);           /* tun queue overflow: kernel drops */
		break;
	}
	case VW_EV_CALLBACK:
		if (W.hooks.on_callback) W.hooks.on_callback(a, b);
		break;
	}
}

/* One scheduling step. limit: do not advance the clock beyond it. */
static int step_limit(int64_t limit)
{
	/* 1. a process that can run right now */
	for (int p = 0; p < VW_MAXPROC; p++) {
		vw_proc *pr = &W.proc[p];
		if (pr->state == VW_P_READY || proc_has_ready_fd(p)) {
			W.nevents++;
			resume(p);
			return 1;
		}
	}
	/* 2. next timed thing */
	int e = next_event();
	int64_t te = e >= 0 ? W.ev[e].at : VW_NEVER;
	int bp = -1; int64_t tp = VW_NEVER;
	for (int p = 0; p < VW_MAXPROC; p++) {
		vw_proc *pr = &W.proc[p];
		if ((pr->state == VW_P_SELECT || pr->state == VW_P_SLEEP) && pr->deadline < tp) {
			tp = pr->deadline; bp = p;
		}
	}
	if (te == VW_NEVER && tp == VW_NEVER) return 0;
	if (te <= tp) {
		if (te > limit) return 0;
		if (te > W.now) W.now = te;
		W.nevents++;
		apply_event(e);
		return 1;
	}
	if (tp > limit) return 0;
	if (tp > W.now) W.now = tp;
	W.nevents++;
	resume(bp);
	return 1;
}

int vw_step(void) { return step_limit(VW_NEVER - 1); }

int vw_run_until(int64_t t)
{
	int n = 0;
	while (step_limit(t)) n++;
	if (W.now < t) W.now = t;
	return n;
}

int vw_run_quiescent(int64_t maxadvance)
{
	int n = 0;
	int64_t lim = W.now + maxadvance;
	while (step_limit(lim)) n++;
	return n;
}

/* ------------------------------------------------------------------ */
/* libc replacements (the images' undefined symbols are mapped here) */

#include "vw_libc.h"

static vw_proc *curproc(const char *what)
{
	if (W.cur < 0) vw_fatal("%s called outside a virtual process", what);
	return &W.proc[W.cur];
}

int vw_select(int nfds, fd_set *r, fd_set *w, fd_set *x, struct timeval *tv)
{
	vw_proc *pr = curproc("select");
	int p = W.cur;
	if (W.direct) vw_fatal("select() in direct mode");
	(void)w; (void)x;
	pr->rfds = r; pr->nfds = nfds;
	pr->deadline = tv ? W.now + (int64_t)tv->tv_sec * 1000000 + tv->tv_usec : VW_NEVER;
	pr->state = VW_P_SELECT;
	pr->nselects++;
	switch_to_sched(p, 0);
	/* resumed: either an fd is ready or the deadline passed */
	int n = 0;
	fd_set out;
	FD_ZERO(&out);
	if (r) {
		for (int fd = 0; fd < nfds; fd++)
			if (FD_ISSET(fd, r) && fd_ready(p, fd)) { FD_SET(fd, &out); n++; }
		*r = out;
	}
	pr->state = VW_P_READY;   /* running */
	pr->rfds = NULL;
	pr->deadline = VW_NEVER;
	if (tv) { tv->tv_sec = 0; tv->tv_usec = 0; }
	return n;
}

unsigned vw_sleep(unsigned s)
{
	vw_proc *pr = curproc("sleep");
	int p = W.cur;
	pr->deadline = W.now + (int64_t)s * 1000000;
	pr->state = VW_P_SLEEP;
	switch_to_sched(p, 0);
	pr->state = VW_P_READY;
	pr->deadline = VW_NEVER;
	return 0;
}

void vw_direct_begin(int p, void *jmpbuf)
{
	if (W.cur != -1) vw_fatal("vw_direct_begin while a process runs");
	W.cur = p; W.direct = 1; W.direct_jmp = jmpbuf;
}
void vw_direct_end(void) { W.cur = -1; W.direct = 0; W.direct_jmp = NULL; }

void vw_exit(int code)
{
	vw_proc *pr = curproc("exit");
	int p = W.cur;
	if (W.direct) {
		W.direct_exit_code = code;
		if (!W.direct_jmp) vw_fatal("exit(%d) in direct mode without jmp_buf", code);
		longjmp(*(jmp_buf *)W.direct_jmp, 1);
	}
	pr->state = VW_P_EXITED;
	pr->exit_code = code;
	for (;;) switch_to_sched(p, 0);
}

static void swallow(const char *fmt, va_list ap)
{
	/* Format into nothing: keeps the reads a real printf would do (so that an
	 * unterminated %s is still seen by ASan) without producing output. */
	if (W.verbose) { vfprintf(stderr, fmt, ap); }
	else { char c[1]; vsnprintf(c, 0, fmt, ap); (void)c; }
}

void vw_err(int code, const char *fmt, ...)
{
	va_list ap; va_start(ap, fmt); if (fmt) swallow(fmt, ap); va_end(ap);
	if (W.verbose) fputc('\n', stderr);
	vw_exit(code);
}
void vw_errx(int code, const char *fmt, ...)
{
	va_list ap; va_start(ap, fmt); if (fmt) swallow(fmt, ap); va_end(ap);
	if (W.verbose) fputc('\n', stderr);
	vw_exit(code);
}
void vw_warn(const char *fmt, ...)
{
	va_list ap; va_start(ap, fmt); if (fmt) swallow(fmt, ap); va_end(ap);
	if (W.verbose) fputc('\n', stderr);
}
void vw_warnx(const char *fmt, ...)
{
	va_list ap; va_start(ap, fmt); if (fmt) swallow(fmt, ap); va_end(ap);
	if (W.verbose) fputc('\n', stderr);
}
void vw_syslog(int pri, const char *fmt, ...)
{
	(void)pri;
	va_list ap; va_start(ap, fmt); swallow(fmt, ap); va_end(ap);
	if (W.verbose) fputc('\n', stderr);
}
void vw_openlog(const char *ident, int opt, int fac) { (void)ident; (void)opt; (void)fac; }

int vw_fprintf(FILE *f, const char *fmt, ...)
{
	va_list ap; int r = 0;
	va_start(ap, fmt);
	if (f == stderr || f == stdout) swallow(fmt, ap);
	else r = vfprintf(f, fmt, ap);
	va_end(ap);
	return r;
}
int vw_fputc(int c, FILE *f) { if ((f == stderr || f == stdout)) { if (W.verbose) fputc(c, stderr); return c; } return fputc(c, f); }
int vw_fputs(const char *s, FILE *f) { if ((f == stderr || f == stdout)) { if (W.verbose) fputs(s, stderr); else (void)strlen(s); return 1; } return fputs(s, f); }
size_t vw_fwrite(const void *p, size_t sz, size_t n, FILE *f)
{
	if (f == stderr || f == stdout) { if (W.verbose) fwrite(p, sz, n, stderr); return n; }
	return fwrite(p, sz, n, f);
}
int vw_fflush(FILE *f) { (void)f; return 0; }
int vw_puts(const char *s) { if (W.verbose) fputs(s, stderr); return 1; }
int vw_printf(const char *fmt, ...) { va_list ap; va_start(ap, fmt); swallow(fmt, ap); va_end(ap); return 0; }

time_t vw_time(time_t *t)
{
	time_t v = (time_t)(VW_EPOCH + W.now / 1000000);
	if (t) *t = v;
	return v;
}

int vw_rand(void)
{
	vw_proc *pr = curproc("rand");
	if (pr->rand_forced_pos < pr->nrand_forced) return pr->rand_forced[pr->rand_forced_pos++];
	pr->rand_state = pr->rand_state * 1103515245u + 12345u;
	return (int)((pr->rand_state >> 1) & 0x7fffffff);
}
void vw_srand(unsigned s) { curproc("srand")->rand_state = s; }

int vw_system(const char *cmd)
{
	vw_proc *pr = curproc("system");
	if (pr->nsys < 16) pr->sys[pr->nsys++] = strdup(cmd);
	if (W.hooks.on_system) W.hooks.on_system(W.cur, cmd);
	return 0;
}

ssize_t vw_sendto(int fd, const void *buf, size_t len, int flags,
		  const struct sockaddr *dst, socklen_t dstlen)
{
	(void)flags;
	curproc("sendto");
	vw_sock *s = find_sock_fd(W.cur, fd);
	if (!s) { errno = EBADF; return -1; }
	struct sockaddr_storage d;
	memset(&d, 0, sizeof d);
	if (dstlen > sizeof d) dstlen = sizeof d;
	/* like the kernel, look only at the address proper (iodined passes sizeof(sockaddr_storage) and whatever
	 * its stack held beyond the sockaddr_in) */
	{
		socklen_t need = dst->sa_family == AF_INET ? sizeof(struct sockaddr_in) : dst->sa_family == AF_INET6 ? sizeof(struct sockaddr_in6) : dstlen;
		if (dstlen > need) dstlen = need;
	}
	memcpy(&d, dst, dstlen);
	if (d.ss_family == AF_INET) memset(((struct sockaddr_in *)&d)->sin_zero, 0, 8);
	/* like the kernel: an IPv4 socket refuses an IPv6 destination (EAFNOSUPPORT) and iodined's IPv6 socket is
	 * IPV6_V6ONLY, so an IPv4 destination is unreachable there - nothing leaves the machine in either case */
	if ((d.ss_family == AF_INET || d.ss_family == AF_INET6) && (s->addr.ss_family == AF_INET || s->addr.ss_family == AF_INET6) &&
	    d.ss_family != s->addr.ss_family) {
		W.family_mismatch_sends++;
		errno = s->addr.ss_family == AF_INET ? EAFNOSUPPORT : ENETUNREACH;
		return -1;
	}
	int di = vw_dgram_new(&s->addr, s->addrlen, &d, dstlen, buf, (int)len, W.cur);
	if (!W.hooks.on_send) vw_fatal("no on_send hook");
	W.hooks.on_send(di);
	return (ssize_t)len;
}

static int pop_dgram(vw_sock *s)
{
	if (s->qn <= 0) return -1;
	int d = s->q[s->qh];
	s->qh = (s->qh + 1) & 255;
	s->qn--;
	return d;
}

static ssize_t do_recv(int fd, void *buf, size_t buflen, struct sockaddr *from, socklen_t *fromlen,
		       struct sockaddr_storage *dstaddr)
{
	curproc("recv");
	vw_sock *s = find_sock_fd(W.cur, fd);
	if (!s) { errno = EBADF; return -1; }
	int di = pop_dgram(s);
	if (di < 0) { errno = EAGAIN; return -1; }
	vw_dgram *d = &W.dg[di];
	if (W.hooks.on_recv) W.hooks.on_recv(W.cur, di);
	size_t n = (size_t)d->len < buflen ? (size_t)d->len : buflen;
	if (n) memcpy(buf, d->data, n);
	if (W.hooks.recv_residue && n < buflen)
		W.hooks.recv_residue(W.cur, (unsigned char *)buf + n, buflen - n, (int)n);
	if (from && fromlen) {
		socklen_t l = d->srclen < *fromlen ? d->srclen : *fromlen;
		memcpy(from, &d->src, l);
		*fromlen = d->srclen;
	}
	if (dstaddr) memcpy(dstaddr, &d->dst, sizeof *dstaddr);
	vw_dgram_free(di);
	return (ssize_t)n;
}

ssize_t vw_recvfrom(int fd, void *buf, size_t len, int flags, struct sockaddr *from, socklen_t *fromlen)
{
	(void)flags;
	return do_recv(fd, buf, len, from, fromlen, NULL);
}

ssize_t vw_recv(int fd, void *buf, size_t len, int flags)
{
	(void)flags;
	return do_recv(fd, buf, len, NULL, NULL, NULL);
}

ssize_t vw_recvmsg(int fd, struct msghdr *msg, int flags)
{
	(void)flags;
	struct sockaddr_storage dst;
	socklen_t fl = msg->msg_namelen;
	if (msg->msg_iovlen < 1) { errno = EINVAL; return -1; }
	ssize_t r = do_recv(fd, msg->msg_iov[0].iov_base, msg->msg_iov[0].iov_len,
			    (struct sockaddr *)msg->msg_name, &fl, &dst);
	if (r < 0) return r;
	msg->msg_namelen = fl;
	msg->msg_flags = 0;
	/* control message with the local (destination) address, as IP_PKTINFO does */
	if (msg->msg_control) {
		struct cmsghdr *c = (struct cmsghdr *)msg->msg_control;
		if (dst.ss_family == AF_INET && msg->msg_controllen >= CMSG_SPACE(sizeof(struct in_pktinfo))) {
			struct in_pktinfo pi;
			memset(&pi, 0, sizeof pi);
			pi.ipi_addr = ((struct sockaddr_in *)&dst)->sin_addr;
			pi.ipi_spec_dst = pi.ipi_addr;
			c->cmsg_level = IPPROTO_IP; c->cmsg_type = IP_PKTINFO;
			c->cmsg_len = CMSG_LEN(sizeof pi);
			memcpy(CMSG_DATA(c), &pi, sizeof pi);
			msg->msg_controllen = CMSG_SPACE(sizeof pi);
		} else if (dst.ss_family == AF_INET6 && msg->msg_controllen >= CMSG_SPACE(sizeof(struct in6_pktinfo))) {
			struct in6_pktinfo pi;
			memset(&pi, 0, sizeof pi);
			pi.ipi6_addr = ((struct sockaddr_in6 *)&dst)->sin6_addr;
			c->cmsg_level = IPPROTO_IPV6; c->cmsg_type = IPV6_PKTINFO;
			c->cmsg_len = CMSG_LEN(sizeof pi);
			memcpy(CMSG_DATA(c), &pi, sizeof pi);
			msg->msg_controllen = CMSG_SPACE(sizeof pi);
		} else msg->msg_controllen = 0;
	}
	return r;
}

ssize_t vw_read(int fd, void *buf, size_t len)
{
	curproc("read");
	vw_tun *t = find_tun_fd(W.cur, fd);
	if (!t) vw_fatal("read() on unknown fd %d by proc %d", fd, W.cur);
	if (t->rxn <= 0) { errno = EAGAIN; return -1; }
	vw_tunpkt tp = t->rx[t->rxh];
	t->rxh = (t->rxh + 1) & 63; t->rxn--;
	if (W.hooks.on_tun_read) W.hooks.on_tun_read(W.cur, tp.data, tp.len, tp.tag);
	size_t n = (size_t)tp.len < len ? (size_t)tp.len : len;
	memcpy(buf, tp.data, n);
	free(tp.data);
	return (ssize_t)n;
}

ssize_t vw_write(int fd, const void *buf, size_t len)
{
	curproc("write");
	vw_tun *t = find_tun_fd(W.cur, fd);
	if (!t) vw_fatal("write() on unknown fd %d by proc %d", fd, W.cur);
	if (W.hooks.on_tun_write) W.hooks.on_tun_write(W.cur, buf, (int)len);
	return (ssize_t)len;
}

int vw_close(int fd) { (void)fd; return 0; }

void vw_forbidden_name(const char *name)
{
	vw_fatal("image called %s(), which the virtual world does not provide", name);
}

/* ------------------------------------------------------------------ */
/* sanitizer report capture */

const char *__asan_get_report_description(void);
void *__asan_get_report_pc(void);
int __asan_get_report_access_type(void);
void __sanitizer_symbolize_pc(void *pc, const char *fmt, char *out, size_t outsz);
void __ubsan_get_current_report_data(const char **kind, const char **msg, const char **file,
				     unsigned *line, unsigned *col, char **addr) __attribute__((weak));

static const char *base_name(const char *p)
{
	const char *b = strrchr(p, '/');
	return b ? b + 1 : p;
}

#if VW_ASAN
void __asan_on_error(void)
{
	char loc[200] = "?", sig[256];
	W.sanitizer_reports++;
	__sanitizer_symbolize_pc(__asan_get_report_pc(), "%s:%l", loc, sizeof loc);
	snprintf(sig, sizeof sig, "asan:%s:%s:%s", __asan_get_report_description(),
		 __asan_get_report_access_type() ? "write" : "read", base_name(loc));
	if (!W.last_report[0]) snprintf(W.last_report, sizeof W.last_report, "%s", sig);
	if (W.hooks.on_sanitizer) W.hooks.on_sanitizer(sig);
}
#endif

void __ubsan_on_report(void)
{
	const char *k = "?", *m = "?", *f = "?"; unsigned l = 0, c = 0; char *a = NULL;
	char sig[256];
	W.sanitizer_reports++;
	if (__ubsan_get_current_report_data) __ubsan_get_current_report_data(&k, &m, &f, &l, &c, &a);
	snprintf(sig, sizeof sig, "ubsan:%s:%s:%u", k, base_name(f ? f : "?"), l);
	if (!W.last_report[0]) snprintf(W.last_report, sizeof W.last_report, "%s", sig);
	if (W.hooks.on_sanitizer) W.hooks.on_sanitizer(sig);
}

/* ------------------------------------------------------------------ */
/* whole-state hash */

static void hash_dgram(h128 *h, int di)
{
	vw_dgram *d = &W.dg[di];
	h128_update(h, &d->src, sizeof d->src);
	h128_update(h, &d->dst, sizeof d->dst);
	h128_update(h, &d->len, sizeof d->len);
	h128_update(h, d->data, d->len);
}

void vw_hash_world(uint64_t out[2], int flags)
{
	h128 h;
	int include_stacks = flags & 1, coarse = flags & 2;
	/* coarse time (E-B): the images see time only through time() (whole seconds) and relative
	 * select() deadlines, so the sub-second part of the clock is not part of the state */
	int64_t tbase = coarse ? W.now : 0;
	int64_t tnow = coarse ? W.now / 1000000 : W.now;
	h128_init(&h);
	h128_update(&h, &tnow, sizeof tnow);
	if (!(flags & 4)) for (int i = 0; i < nsections; i++)
		h128_update(&h, sections[i].start, sections[i].stop - sections[i].start);
	for (int p = 0; p < VW_MAXPROC; p++) {
		vw_proc *pr = &W.proc[p];
		h128_update(&h, &pr->state, sizeof pr->state);
		if (pr->state == VW_P_UNUSED) continue;
		h128_update(&h, &pr->exit_code, sizeof pr->exit_code);
		{ int64_t dl = pr->deadline == VW_NEVER ? VW_NEVER : pr->deadline - tbase; h128_update(&h, &dl, sizeof dl); }
		h128_update(&h, &pr->rand_state, sizeof pr->rand_state);
		if (pr->rfds && pr->state == VW_P_SELECT) {
			h128_update(&h, &pr->nfds, sizeof pr->nfds);
			h128_update(&h, pr->rfds, sizeof(fd_set));
		}
		if (include_stacks && vw_alive(p)) {
			char *sp = (char *)proc_ctx[p].uc_mcontext.gregs[REG_RSP];
			char *top = pr->stack + pr->stacksz;
			if (sp >= pr->stack && sp < top) h128_update(&h, sp, top - sp);
			h128_update(&h, &proc_ctx[p].uc_mcontext.gregs, sizeof proc_ctx[p].uc_mcontext.gregs);
		}
		for (int i = 0; i < pr->nsys; i++) h128_update(&h, pr->sys[i], strlen(pr->sys[i]));
	}
	for (int i = 0; i < VW_MAXSOCK; i++) {
		vw_sock *s = &W.sock[i];
		if (!s->used) continue;
		h128_update(&h, &s->qn, sizeof s->qn);
		for (int k = 0; k < s->qn; k++) hash_dgram(&h, s->q[(s->qh + k) & 255]);
	}
	for (int i = 0; i < VW_MAXTUN; i++) {
		vw_tun *t = &W.tun[i];
		if (!t->used) continue;
		h128_update(&h, &t->rxn, sizeof t->rxn);
		for (int k = 0; k < t->rxn; k++) {
			vw_tunpkt *tp = &t->rx[(t->rxh + k) & 63];
			h128_update(&h, &tp->tag, sizeof tp->tag);
			h128_update(&h, tp->data, tp->len);
		}
	}
	/* timed events in firing order */
	{
		static unsigned char done[VW_MAXEVENTS];
		memset(done, 0, sizeof done);
		for (;;) {
			int best = -1;
			for (int i = 0; i < VW_MAXEVENTS; i++) {
				vw_event *e = &W.ev[i];
				if (!e->used || done[i]) continue;
				if (best < 0) { best = i; continue; }
				vw_event *b = &W.ev[best];
				if (e->at < b->at || (e->at == b->at && (e->kind < b->kind ||
				    (e->kind == b->kind && e->seq < b->seq)))) best = i;
			}
			if (best < 0) break;
			done[best] = 1;
			vw_event *e = &W.ev[best];
			{ int64_t at = e->at - tbase; h128_update(&h, &at, sizeof at); }
			h128_update(&h, &e->kind, sizeof e->kind);
			if (e->kind == VW_EV_DELIVER) { h128_update(&h, &e->b, sizeof e->b); hash_dgram(&h, e->a); }
			else if (e->kind == VW_EV_TUN) { h128_update(&h, &e->a, sizeof e->a); h128_update(&h, &e->b, sizeof e->b); h128_update(&h, e->pkt, e->pktlen); }
			else { h128_update(&h, &e->a, sizeof e->a); h128_update(&h, &e->b, sizeof e->b); }
		}
	}
	h128_final(&h, out);
}

/* ------------------------------------------------------------------ */
/* in-process snapshots (E-B without fork): valid only while every process is blocked and the
 * network is at rest (no datagram or event pending), which is where E-B takes them. */

/* lowest page of process p's stack that has ever been touched */
static char *stack_low_water(int p)
{
	static unsigned char vec[(VW_STACK >> 12) + 2];
	vw_proc *pr = &W.proc[p];
	size_t pages = pr->stacksz >> 12;
	if (mincore(pr->stack, pr->stacksz, vec) != 0) vw_fatal("mincore failed");
	for (size_t i = 0; i < pages; i++) if (vec[i] & 1) return pr->stack + (i << 12);
	return pr->stack + pr->stacksz;
}

struct vw_snap {
	vw_world w;
	ucontext_t ctx[VW_MAXPROC];
	void *fake[VW_MAXPROC];
	struct { char *at; size_t len; char *data; } stk[VW_MAXPROC];
	struct { char *data; size_t len; } sec[16];
	int nsec;
	struct { void *p; size_t n; char *data; } reg[VW_SNAP_MAXREG];
	int nreg;
	char note[64];
	unsigned char *tunpk[VW_MAXTUN][64];   /* deep copies of the packets queued on the tun devices */
};

vw_snap *vw_snapshot(void)
{
#if VW_ASAN
	vw_fatal("vw_snapshot is not available in ASan builds (use fork mode)");
#endif
	if (W.cur != -1) vw_fatal("snapshot while a process runs");
	for (int i = 0; i < VW_MAXDGRAM; i++) if (W.dg[i].used) vw_fatal("snapshot with a datagram in flight");
	for (int i = 0; i < VW_MAXEVENTS; i++) if (W.ev[i].used) vw_fatal("snapshot with a pending event");
	vw_snap *s = malloc(sizeof *s);
	if (!s) vw_fatal("snapshot: out of memory");
	memcpy(&s->w, &W, sizeof W);
	memcpy(s->ctx, proc_ctx, sizeof proc_ctx);
	memcpy(s->fake, proc_fake, sizeof proc_fake);
	for (int p = 0; p < VW_MAXPROC; p++) {
		s->stk[p].data = NULL; s->stk[p].len = 0;
		if (!vw_alive(p)) continue;
		if (W.proc[p].state == VW_P_READY) vw_fatal("snapshot of a process that never ran");
		/* the whole touched part of the stack, dead frames below the stack pointer included: code that reads an
		 * uninitialised local (the defect class of C12/C14) sees what earlier calls left there, and a restored
		 * state must show it the bytes of its own history, exactly as a forked child or a replay would */
		char *top = W.proc[p].stack + W.proc[p].stacksz;
		char *sp = stack_low_water(p);
		s->stk[p].at = sp; s->stk[p].len = top - sp;
		s->stk[p].data = malloc(s->stk[p].len);
		raw_copy(s->stk[p].data, sp, s->stk[p].len);
	}
	for (int i = 0; i < VW_MAXSOCK; i++) if (W.sock[i].used && W.sock[i].qn) vw_fatal("snapshot with a datagram queued on a socket");
	memset(s->tunpk, 0, sizeof s->tunpk);
	for (int t = 0; t < VW_MAXTUN; t++) if (W.tun[t].used)
		for (int k = 0; k < W.tun[t].rxn; k++) {
			vw_tunpkt *tp = &W.tun[t].rx[(W.tun[t].rxh + k) & 63];
			s->tunpk[t][k] = malloc(tp->len ? tp->len : 1);
			memcpy(s->tunpk[t][k], tp->data, tp->len);
		}
	s->nsec = nsections;
	for (int i = 0; i < nsections; i++) {
		s->sec[i].len = sections[i].stop - sections[i].start;
		s->sec[i].data = malloc(s->sec[i].len ? s->sec[i].len : 1);
		memcpy(s->sec[i].data, sections[i].start, s->sec[i].len);
	}
	s->nreg = 0;
	memset(s->note, 0, sizeof s->note);
	if (W.hooks.snap_regions) {
		vw_region r[VW_SNAP_MAXREG];
		int n = W.hooks.snap_regions(r, VW_SNAP_MAXREG, s->note);
		for (int i = 0; i < n; i++) {
			s->reg[i].p = r[i].p; s->reg[i].n = r[i].n;
			s->reg[i].data = malloc(r[i].n ? r[i].n : 1);
			memcpy(s->reg[i].data, r[i].p, r[i].n);
		}
		s->nreg = n;
	}
	return s;
}

void vw_restore(const vw_snap *s)
{
	if (W.cur != -1) vw_fatal("restore while a process runs");
	/* anything the abandoned branch left allocated */
	for (int i = 0; i < VW_MAXDGRAM; i++) if (W.dg[i].used) { free(W.dg[i].data); W.dg[i].used = 0; }
	for (int i = 0; i < VW_MAXEVENTS; i++) if (W.ev[i].used) { free(W.ev[i].pkt); W.ev[i].used = 0; }
	for (int p = 0; p < VW_MAXPROC; p++)
		for (int i = s->w.proc[p].nsys; i < W.proc[p].nsys; i++) free(W.proc[p].sys[i]);
	for (int t = 0; t < VW_MAXTUN; t++) if (W.tun[t].used)
		for (int k = 0; k < W.tun[t].rxn; k++) free(W.tun[t].rx[(W.tun[t].rxh + k) & 63].data);
	long nevents = W.nevents, ndelivered = W.ndelivered;
	int reports = W.sanitizer_reports;
	memcpy(&W, &s->w, sizeof W);
	/* the snapshot's own packet pointers may have been consumed since: queue fresh copies */
	for (int t = 0; t < VW_MAXTUN; t++) if (W.tun[t].used)
		for (int k = 0; k < W.tun[t].rxn; k++) {
			vw_tunpkt *tp = &W.tun[t].rx[(W.tun[t].rxh + k) & 63];
			tp->data = malloc(tp->len ? tp->len : 1);
			memcpy(tp->data, s->tunpk[t][k], tp->len);
		}
	W.nevents = nevents; W.ndelivered = ndelivered; W.sanitizer_reports = reports;     /* statistics keep counting */
	memcpy(proc_ctx, s->ctx, sizeof proc_ctx);
	memcpy(proc_fake, s->fake, sizeof proc_fake);
	for (int p = 0; p < VW_MAXPROC; p++)
		if (s->stk[p].data) {
			char *low = stack_low_water(p);
			if (low < s->stk[p].at) memset(low, 0, s->stk[p].at - low);     /* pages first touched after the snapshot */
			raw_copy(s->stk[p].at, s->stk[p].data, s->stk[p].len);
		}
	for (int i = 0; i < s->nsec; i++) memcpy(sections[i].start, s->sec[i].data, s->sec[i].len);
	for (int i = 0; i < s->nreg; i++) memcpy(s->reg[i].p, s->reg[i].data, s->reg[i].n);
	if (W.hooks.snap_restored) W.hooks.snap_restored(s->note);
}

void vw_snap_free(vw_snap *s)
{
	for (int p = 0; p < VW_MAXPROC; p++) free(s->stk[p].data);
	for (int i = 0; i < s->nsec; i++) free(s->sec[i].data);
	for (int i = 0; i < s->nreg; i++) free(s->reg[i].data);
	for (int t = 0; t < VW_MAXTUN; t++) for (int k = 0; k < 64; k++) free(s->tunpk[t][k]);
	free(s);
}
