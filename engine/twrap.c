/* tun.c wrapper: gives the harness a way to set the interface name that
 * open_tun() would have chosen (open_tun itself needs /dev/net/tun). */
#include TUN_C
void w_tun_set_ifname(const char *n)
{
	strncpy(if_name, n, sizeof(if_name));
	if_name[sizeof(if_name) - 1] = 0;
}
