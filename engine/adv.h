/* "Adversary world": the real server (image s) runs its real tunnel() loop as process 0;
 * the harness is the peer: it injects datagrams / tun packets / time and captures everything
 * the server emits.  Header-only helper shared by the E-B checks. */
#ifndef ADV_H
#define ADV_H
#include <stdio.h>
#include <stdlib.h>
#include <string.h>
#include "vw.h"
#include "images.h"

#define ADV_MAXOUT 64
#define SRV_TUN_FD 10
#define SRV_V4_FD 11
#define SRV_V6_FD 12
#define SRV_BIND_FD 13

typedef struct adv_out {
	int kind;                     /* 0 = datagram from v4 sock, 1 = from v6 sock, 2 = from bind sock, 3 = tun write, 4 = system() */
	struct sockaddr_storage dst;
	int len;
	unsigned char data[16400];           /* a 4094-byte fragment in Base32 TXT form is about 6.7 KB */
	int full_len;
} adv_out;

static adv_out adv_outs[ADV_MAXOUT];
static int adv_nout;
static long adv_out_dropped;
static int adv_srv_sock = -1, adv_srv_sock6 = -1, adv_bind_sock = -1, adv_srv_tun = -1;
static struct w_server_cfg adv_cfg;
static int adv_use_v6, adv_use_bind;
static const char *adv_srv_ip = "192.0.2.1";
static const char *adv_srv_ip6 = "2001:db8::1";

static void adv_clear(void) { adv_nout = 0; }

static void adv_on_send(int d)
{
	vw_dgram *g = &W.dg[d];
	if (adv_nout < ADV_MAXOUT) {
		adv_out *o = &adv_outs[adv_nout++];
		int si = vw_sock_find(&g->src);
		o->kind = si == adv_bind_sock ? 2 : si == adv_srv_sock6 ? 1 : 0;
		memcpy(&o->dst, &g->dst, sizeof o->dst);
		o->full_len = g->len;
		o->len = g->len > (int)sizeof o->data ? (int)sizeof o->data : g->len;
		memcpy(o->data, g->data, o->len);
	} else adv_out_dropped++;
	vw_dgram_free(d);
}

static void adv_on_tun_write(int proc, const unsigned char *data, int len)
{
	(void)proc;
	if (adv_nout < ADV_MAXOUT) {
		adv_out *o = &adv_outs[adv_nout++];
		memset(&o->dst, 0, sizeof o->dst);
		o->kind = 3; o->full_len = len;
		o->len = len > (int)sizeof o->data ? (int)sizeof o->data : len;
		memcpy(o->data, data, o->len);
	} else adv_out_dropped++;
}

static void adv_on_system(int proc, const char *cmd)
{
	(void)proc;
	if (adv_nout < ADV_MAXOUT) {
		adv_out *o = &adv_outs[adv_nout++];
		memset(&o->dst, 0, sizeof o->dst);
		o->kind = 4; o->full_len = o->len = (int)strlen(cmd) > 4000 ? 4000 : (int)strlen(cmd);
		memcpy(o->data, cmd, o->len);
	}
}

static void adv_server_main(void *arg)
{
	(void)arg;
	s_w_tun_set_ifname("dns0");
	s_w_init(&adv_cfg);
	s_w_run(SRV_TUN_FD, SRV_V4_FD, adv_use_v6 ? SRV_V6_FD : -1, adv_use_bind ? SRV_BIND_FD : 0);
}

/* boots the server up to its first select() */
static void (*adv_boot_failed)(const struct w_server_cfg *cfg, int state);
static void adv_boot(const struct w_server_cfg *cfg, int use_v6, int use_bind)
{
	adv_cfg = *cfg;
	adv_use_v6 = use_v6; adv_use_bind = use_bind;
	W.hooks.on_send = adv_on_send;
	W.hooks.on_tun_write = adv_on_tun_write;
	W.hooks.on_system = adv_on_system;
	adv_srv_sock = vw_sock_open(0, SRV_V4_FD, adv_srv_ip, 53);
	if (use_v6) adv_srv_sock6 = vw_sock_open6(0, SRV_V6_FD, adv_srv_ip6, 53);
	if (use_bind) adv_bind_sock = vw_sock_open(0, SRV_BIND_FD, "127.0.0.1", 45000);
	adv_srv_tun = vw_tun_open(0, SRV_TUN_FD);
	vw_spawn(0, adv_server_main, NULL);
	vw_run_quiescent(0);
	if (W.proc[0].state != VW_P_SELECT) {
		/* the server refused its (valid) configuration or ended during start-up: the harness may want to report that */
		if (adv_boot_failed) { adv_boot_failed(cfg, W.proc[0].state); return; }
		vw_fatal("server did not reach select() (state %d)", W.proc[0].state);
	}
}

/* deliver one datagram to a server socket and run the server until it blocks again
 * (no virtual time passes).  Returns 0, or -1 if the server is dead. */
static int adv_send_sock(int sockidx, const struct sockaddr_storage *src, socklen_t srclen,
			 const void *data, int len)
{
	if (!vw_alive(0)) return -1;
	int d = vw_dgram_new(src, srclen, &W.sock[sockidx].addr, W.sock[sockidx].addrlen, data, len, -1);
	vw_deliver_now(d, sockidx);
	vw_run_quiescent(0);
	return vw_alive(0) ? 0 : -1;
}

static int adv_send(const struct sockaddr_storage *src, socklen_t srclen, const void *data, int len)
{
	return adv_send_sock(src->ss_family == AF_INET6 && adv_srv_sock6 >= 0 ? adv_srv_sock6 : adv_srv_sock, src, srclen, data, len);
}

static int adv_tun_in(const void *pkt, int len)
{
	if (!vw_alive(0)) return -1;
	vw_tun_offer_at(adv_srv_tun, W.now, pkt, len, 0);
	vw_run_quiescent(0);
	return vw_alive(0) ? 0 : -1;
}

static void adv_advance(int64_t usec)
{
	vw_run_until(W.now + usec);
}

#endif
