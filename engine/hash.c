/* Fast 128-bit non-cryptographic hash for exact-state tables.
 * Compiled WITHOUT sanitizers: it deliberately reads whole sections and stack
 * ranges including ASan redzones. */
#include <stdint.h>
#include <stddef.h>
#include <string.h>
#include "hash.h"

static inline uint64_t rotl(uint64_t x, int r) { return (x << r) | (x >> (64 - r)); }
static inline uint64_t mix(uint64_t h) {
	h ^= h >> 32; h *= 0xd6e8feb86659fd93ULL; h ^= h >> 32; h *= 0xd6e8feb86659fd93ULL; h ^= h >> 32;
	return h;
}

void h128_init(h128 *h) { h->a = 0x9e3779b97f4a7c15ULL; h->b = 0xc2b2ae3d27d4eb4fULL; h->n = 0; }

__attribute__((no_sanitize("address", "undefined")))
void h128_update(h128 *h, const void *p, size_t len)
{
	const unsigned char *s = p;
	uint64_t a = h->a, b = h->b;
	h->n += len;
	/* length prefix makes concatenation unambiguous */
	a = (rotl(a, 29) ^ (uint64_t)len) * 0x9fb21c651e98df25ULL;
	b = (rotl(b, 31) + (uint64_t)len) * 0xff51afd7ed558ccdULL;
	while (len >= 32) {
		uint64_t w0, w1, w2, w3;
		memcpy(&w0, s, 8); memcpy(&w1, s + 8, 8); memcpy(&w2, s + 16, 8); memcpy(&w3, s + 24, 8);
		a = (rotl(a, 27) ^ w0) * 0x9fb21c651e98df25ULL + w1;
		b = (rotl(b, 31) ^ w2) * 0xff51afd7ed558ccdULL + w3;
		a ^= rotl(w2, 17); b ^= rotl(w0, 41);
		s += 32; len -= 32;
	}
	while (len >= 8) {
		uint64_t w; memcpy(&w, s, 8);
		a = (rotl(a, 27) ^ w) * 0x9fb21c651e98df25ULL;
		b = (rotl(b, 31) + w) * 0xff51afd7ed558ccdULL;
		s += 8; len -= 8;
	}
	if (len) {
		uint64_t w = 0; for (size_t i = 0; i < len; i++) w |= (uint64_t)s[i] << (8 * i);   /* no libc call: the range may cross sanitizer redzones of a coroutine stack */
		a = (rotl(a, 27) ^ w) * 0x9fb21c651e98df25ULL;
		b = (rotl(b, 31) + w) * 0xff51afd7ed558ccdULL;
	}
	h->a = a; h->b = b;
}

void h128_final(h128 *h, uint64_t out[2])
{
	uint64_t a = h->a ^ h->n, b = h->b + h->n;
	a = mix(a + rotl(b, 23)); b = mix(b ^ rotl(a, 37));
	out[0] = a; out[1] = b ? b : 1;   /* never all-zero: zero marks an empty table slot */
}

__attribute__((no_sanitize("address", "undefined")))
void raw_copy(void *dst, const void *src, size_t n)
{
	unsigned char *d = dst; const unsigned char *s = src;
	while (n--) *d++ = *s++;
}
