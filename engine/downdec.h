/* Reference decoders for the five downstream presentations (NULL/PRIVATE raw, TXT t/s/u/v/r,
 * CNAME/A/MX/SRV hostname h/i/j/k), independent of the client code: strict parser (ref/refdns) +
 * reference codecs (ref/refcodec, calibrated against the server image's encoders).  Header-only;
 * needs IMG_SERVER(s) declared before inclusion. */
#ifndef DOWNDEC_H
#define DOWNDEC_H
#include <ctype.h>
#include <string.h>
#include "refdns.h"
#include "refcodec.h"

static int calibrated;
static const struct encoder *srv_ops(int k) { return k == 0 ? &s_base32_ops : k == 1 ? &s_base64_ops : k == 2 ? &s_base64u_ops : &s_base128_ops; }

static int dec_text(int letter, const unsigned char *txt, int n, unsigned char *out, int outsz)
{
	int codec;
	switch (tolower(letter)) {
	case 't': case 'h': codec = REF_B32; break;
	case 's': case 'i': codec = REF_B64; break;
	case 'u': case 'j': codec = REF_B64U; break;
	case 'v': case 'k': codec = REF_B128; break;
	case 'r': if (n > outsz) n = outsz; memcpy(out, txt, n); return n;
	default: return -1;
	}
	if (n * 7 / 8 + 2 > outsz) return -1;
	return (int)ref_decode(codec, txt, n, out);
}

/* reference decoder of the five downstream presentations: returns payload length or -1 */
static int decode_downstream(const rd_msg *m, const unsigned char *msg, unsigned char *out, int outsz)
{
	if (!calibrated) { for (int k = 0; k < 4; k++) ref_calibrate(k, srv_ops(k)->encode); calibrated = 1; }
	int n = 0;
	if (m->an < 1) return -1;
	const rd_rr *r0 = &m->rr[0];
	if (r0->type == 10 || r0->type == 65399) { n = r0->rdlen > outsz ? outsz : r0->rdlen; memcpy(out, msg + r0->rdoff, n); return n; }
	if (r0->type == 16) {
		static unsigned char txt[70000]; int tl = 0;
		int p = r0->rdoff, e = r0->rdoff + r0->rdlen;
		while (p < e) { int l = msg[p]; memcpy(txt + tl, msg + p + 1, l); tl += l; p += 1 + l; }
		if (tl < 1) return -1;
		return dec_text(txt[0], txt + 1, tl - 1, out, outsz);
	}
	if (r0->type == 5 || r0->type == 15 || r0->type == 33) {
		/* names in preference order */
		int total = 0;
		for (int want = 10; ; want += 10) {
			const rd_rr *r = NULL;
			if (r0->type == 5) { if (want > 10) break; r = r0; }
			else { for (int i = 0; i < m->nrr; i++) if (m->rr[i].section == 1 && m->rr[i].pref == want) { r = &m->rr[i]; break; } if (!r) break; }
			char dotted[300]; int dl = rd_name_to_dotted(r->target, r->targetlen, dotted, sizeof dotted);
			if (dl < 5) break;
			/* letter + data (with dots) + ".xy" */
			unsigned char flat[300]; int fl = 0;
			for (int i = 1; i < dl - 3; i++) if (dotted[i] != '.') flat[fl++] = dotted[i];
			int k = dec_text(dotted[0], flat, fl, out + total, outsz - total);
			if (k < 0) return -1;
			total += k;
		}
		return total;
	}
	return -1;
}

#endif
