import sys,json
for l in sys.stdin:
    if l.startswith("STATS "):
        st=json.loads(l[6:])
        for v in st['violations']: print('VIOL',v['sig'],'|',v['detail'],'|',v['count'])
        print({k:st[k] for k in st if k not in('violations','samples','counters')})
        for s in st['samples']: print('  sample:',s)
    elif l.strip(): print(l.rstrip())
