#!/usr/bin/env python3
import sys, json
for l in sys.stdin:
    if l.startswith('STATS '):
        s = json.loads(l[6:]); v = s.pop('violations'); sm = s.pop('samples'); s.pop('counters', None)
        print(s)
        for x in v: print('VIOL', x)
        if '-s' in sys.argv:
            for x in sm: print('SAMPLE', x)
    else:
        print(l[:400].rstrip())
