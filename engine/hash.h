#ifndef HASH_H
#define HASH_H
#include <stdint.h>
#include <stddef.h>
typedef struct { uint64_t a, b, n; } h128;
void h128_init(h128 *h);
void h128_update(h128 *h, const void *p, size_t len);
void h128_final(h128 *h, uint64_t out[2]);
void raw_copy(void *dst, const void *src, size_t n);
#endif
