/* Prototypes of the environment-call replacements the images are linked to. */
#ifndef VW_LIBC_H
#define VW_LIBC_H
#include <stdio.h>
#include <time.h>
#include <sys/types.h>
#include <sys/socket.h>
#include <sys/select.h>
int vw_select(int nfds, fd_set *r, fd_set *w, fd_set *x, struct timeval *tv);
unsigned vw_sleep(unsigned s);
void vw_exit(int code) __attribute__((noreturn));
void vw_err(int code, const char *fmt, ...) __attribute__((noreturn));
void vw_errx(int code, const char *fmt, ...) __attribute__((noreturn));
void vw_warn(const char *fmt, ...);
void vw_warnx(const char *fmt, ...);
void vw_syslog(int pri, const char *fmt, ...);
void vw_openlog(const char *ident, int opt, int fac);
int vw_fprintf(FILE *f, const char *fmt, ...);
int vw_fputc(int c, FILE *f);
int vw_fputs(const char *s, FILE *f);
size_t vw_fwrite(const void *p, size_t sz, size_t n, FILE *f);
int vw_fflush(FILE *f);
int vw_puts(const char *s);
int vw_printf(const char *fmt, ...);
time_t vw_time(time_t *t);
int vw_rand(void);
void vw_srand(unsigned s);
int vw_system(const char *cmd);
ssize_t vw_sendto(int fd, const void *buf, size_t len, int flags, const struct sockaddr *dst, socklen_t dstlen);
ssize_t vw_recvfrom(int fd, void *buf, size_t len, int flags, struct sockaddr *from, socklen_t *fromlen);
ssize_t vw_recv(int fd, void *buf, size_t len, int flags);
ssize_t vw_recvmsg(int fd, struct msghdr *msg, int flags);
ssize_t vw_read(int fd, void *buf, size_t len);
ssize_t vw_write(int fd, const void *buf, size_t len);
int vw_close(int fd);
void vw_forbidden_name(const char *name);
#endif
