/* Adversary-side builders for iodine tunnel messages (protocol 0x00000502), written from
 * doc/proto_00000502.txt.  Independent of the repository's encoders: Base32 uses its own
 * table; the other upstream codecs go through ref/refcodec (calibrated by the caller).
 * Header-only. */
#ifndef TMSG_H
#define TMSG_H
#include <stdint.h>
#include <string.h>
#include <stdio.h>
#include <zlib.h>
#include "refdns.h"
#include "refcodec.h"

static const char TM_B32[] = "abcdefghijklmnopqrstuvwxyz012345";
static inline char tm_5to8(int v) { return TM_B32[v & 31]; }

/* MSB-first base32 without padding characters (last group zero-filled) */
static int tm_b32(const uint8_t *in, int n, char *out)
{
	int o = 0, acc = 0, bits = 0;
	for (int i = 0; i < n; i++) {
		acc = (acc << 8) | in[i]; bits += 8;
		while (bits >= 5) { out[o++] = TM_B32[(acc >> (bits - 5)) & 31]; bits -= 5; }
	}
	if (bits) out[o++] = TM_B32[(acc << (5 - bits)) & 31];
	out[o] = 0;
	return o;
}

/* query for  <data chars, dotted every 57>.<domain> ; data may hold any byte but '.' and NUL */
static int tm_query(uint8_t *pkt, int pktsz, int id, int qtype, const char *data, int dlen, const char *domain, int edns0)
{
	char dotted[700]; uint8_t wire[700];
	int n = 0;
	for (int i = 0; i < dlen && n < 600; i++) {
		if (i && i % 57 == 0) dotted[n++] = '.';
		dotted[n++] = data[i];
	}
	if (dlen) dotted[n++] = '.';
	int dl = (int)strlen(domain);
	memcpy(dotted + n, domain, dl); n += dl;
	int wl = rd_dotted_to_wire(dotted, n, wire, sizeof wire);
	if (wl < 0) return -1;
	return rd_mkquery(pkt, pktsz, id, wire, wl, qtype, edns0);
}

static int tm_version(uint8_t *pkt, int id, int qtype, uint32_t version, int cmc, const char *dom)
{
	uint8_t d[6] = { version >> 24, version >> 16, version >> 8, version, cmc >> 8, cmc };
	char s[32]; s[0] = 'v';
	int l = tm_b32(d, 6, s + 1);
	return tm_query(pkt, 700, id, qtype, s, 1 + l, dom, 0);
}

static int tm_login(uint8_t *pkt, int id, int qtype, int userid, const uint8_t *hash, int hashlen, int cmc, const char *dom)
{
	uint8_t d[40]; char s[80];
	d[0] = userid; memcpy(d + 1, hash, hashlen); d[1 + hashlen] = cmc >> 8; d[2 + hashlen] = cmc;
	s[0] = 'l';
	int l = tm_b32(d, hashlen + 3, s + 1);
	return tm_query(pkt, 700, id, qtype, s, 1 + l, dom, 0);
}

/* "i<u>" "s<u><codec>" "o<u><opt>"  + 3 CMC chars;  uchar / arg are raw characters */
static int tm_short(uint8_t *pkt, int id, int qtype, char cmd, int uchar, int argchar, int cmc, const char *dom)
{
	char s[16]; int n = 0;
	s[n++] = cmd; s[n++] = (char)uchar;
	if (argchar >= 0) s[n++] = (char)argchar;
	s[n++] = tm_5to8(cmc >> 10); s[n++] = tm_5to8(cmc >> 5); s[n++] = tm_5to8(cmc);
	return tm_query(pkt, 700, id, qtype, s, n, dom, 0);
}

static int tm_setfrag(uint8_t *pkt, int id, int qtype, int userid, int size, int cmc, const char *dom)
{
	uint8_t d[5] = { userid, size >> 8, size, cmc >> 8, cmc }; char s[16];
	s[0] = 'n';
	int l = tm_b32(d, 5, s + 1);
	return tm_query(pkt, 700, id, qtype, s, 1 + l, dom, 0);
}

static int tm_fragprobe(uint8_t *pkt, int id, int qtype, int userid, int size, int cmc, int padlen, const char *dom)
{
	char s[300]; int n = 0;
	s[n++] = 'r';
	s[n++] = tm_5to8(((userid & 15) << 1) | ((size >> 10) & 1));
	s[n++] = tm_5to8((size >> 5) & 31);
	s[n++] = tm_5to8(size & 31);
	s[n++] = tm_5to8(cmc >> 5); s[n++] = tm_5to8(cmc);
	while (n < padlen && n < 250) { s[n] = TM_B32[(n * 7 + cmc) & 31]; n++; }
	return tm_query(pkt, 700, id, qtype, s, n, dom, 0);
}

static int tm_ping(uint8_t *pkt, int id, int qtype, int userid, int dn_seq, int dn_frag, int cmc, const char *dom)
{
	uint8_t d[4] = { userid, ((dn_seq & 7) << 4) | (dn_frag & 15), cmc >> 8, cmc }; char s[16];
	s[0] = 'p';
	int l = tm_b32(d, 4, s + 1);
	return tm_query(pkt, 700, id, qtype, s, 1 + l, dom, 0);
}

/* upstream data fragment.  codec: REF_B32.. ; payload = raw bytes of this fragment */
static int tm_data(uint8_t *pkt, int id, int qtype, int userid, int up_seq, int up_frag, int dn_seq, int dn_frag, int last,
		   char cmcchar, int codec, const uint8_t *payload, int plen, const char *dom)
{
	char s[700]; int n = 0;
	s[n++] = "0123456789abcdef"[userid & 15];
	s[n++] = tm_5to8(((up_seq & 7) << 2) | ((up_frag & 15) >> 2));
	s[n++] = tm_5to8(((up_frag & 3) << 3) | (dn_seq & 7));
	s[n++] = tm_5to8(((dn_frag & 15) << 1) | (last & 1));
	s[n++] = cmcchar;
	if (codec == REF_B32) n += tm_b32(payload, plen, s + n);
	else n += (int)ref_encode(codec, payload, plen, (unsigned char *)s + n);
	return tm_query(pkt, 700, id, qtype, s, n, dom, 0);
}

static int tm_raw(uint8_t *pkt, int cmd, int userid, const uint8_t *payload, int plen)
{
	pkt[0] = 0x10; pkt[1] = 0xd1; pkt[2] = 0x9e; pkt[3] = (cmd & 0xf0) | (userid & 15);
	if (plen) memcpy(pkt + 4, payload, plen);
	return 4 + plen;
}

/* IPv4 frame with the Linux tun header, unique body per tag */
static int tm_ippkt(uint8_t *p, int iplen, uint32_t src_host, uint32_t dst_host, int tag)
{
	memset(p, 0, 4 + iplen);
	p[2] = 0x08;
	unsigned x = 2463534242u + 40503u * (unsigned)tag;
	for (int i = 4; i < 4 + iplen; i++) { x ^= x << 13; x ^= x >> 17; x ^= x << 5; p[i] = (uint8_t)x; }
	if (iplen >= 20) {
		p[4] = 0x45; p[4 + 2] = iplen >> 8; p[4 + 3] = iplen; p[4 + 9] = 17;
		p[4 + 12] = src_host >> 24; p[4 + 13] = src_host >> 16; p[4 + 14] = src_host >> 8; p[4 + 15] = src_host;
		p[4 + 16] = dst_host >> 24; p[4 + 17] = dst_host >> 16; p[4 + 18] = dst_host >> 8; p[4 + 19] = dst_host;
	}
	return 4 + iplen;
}

static int tm_compress(const uint8_t *in, int n, uint8_t *out, int outsz)
{
	unsigned long ol = outsz;
	if (compress2(out, &ol, in, n, 9) != Z_OK) return -1;
	return (int)ol;
}

/* payload of a NULL/PRIVATE answer: pointer into msg, length; -1 if not a parsable answer with one record */
static int tm_null_payload(const uint8_t *msg, int len, const uint8_t **p, rd_msg *m)
{
	char err[128];
	if (rd_parse(msg, len, m, err) || !m->qr || m->an < 1) return -1;
	*p = msg + m->rr[0].rdoff;
	return m->rr[0].rdlen;
}

#endif
