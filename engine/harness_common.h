/* Small helpers shared by all property harnesses. */
#ifndef HARNESS_COMMON_H
#define HARNESS_COMMON_H
#include <stdio.h>
#include <stdlib.h>
#include <string.h>
#include <stdarg.h>
#include <unistd.h>
#include <fcntl.h>
#include <sys/personality.h>
#include <sys/time.h>
#include <signal.h>

/* --san-as C05|C06: run this harness's exploration with the sanitizers as the only oracle, on behalf of the memory-safety
 * property of the server (C05, process 0) or of the client (C06, other processes); the harness's own oracle is muted. */
static const char *hc_san_as;
void xp_violation(const char *sig, const char *fmt, ...);
static int hc_san_report(const char *sig, int proc, const char *harness)
{
	if (!hc_san_as) return 0;
	if ((!strcmp(hc_san_as, "C05")) != (proc == 0)) return 1;
	char s2[200];
	snprintf(s2, sizeof s2, "%s:sanitizer:%s", hc_san_as, sig);
	xp_violation(s2, "sanitizer report in the %s while %s explored its own alphabet (see the replay's letter sequence)", proc == 0 ? "server" : "client", harness);
	return 1;
}

/* watchdog on the process's own CPU time (SIGPROF), not on wall-clock time: a loop that never ends burns CPU and is
 * caught, while a machine that is merely busy with other work cannot cause a false alarm.  0 disarms. */
static void hc_cpu_alarm(int sec)
{
	struct itimerval it; memset(&it, 0, sizeof it);
	it.it_value.tv_sec = sec;
	setitimer(ITIMER_PROF, &it, NULL);
}

typedef struct hc_args {
	const char *tier; int thorough; double budget_s; int workers; const char *replay; int verbose;
	const char *extra[8]; int nextra;
} hc_args;

static hc_args hc_parse(int argc, char **argv, const char *prop)
{
	hc_args a; memset(&a, 0, sizeof a);
	(void)prop;
	/* address-space randomisation off: stale bytes that real code copies around (uninitialised tails of
	 * sockaddr buffers etc.) then have the same values in every run, so state counts are reproducible */
	{
		int pers = personality(0xffffffff);
		if (pers != -1 && !(pers & ADDR_NO_RANDOMIZE) && !getenv("VERIF_ASLR_TRIED")) {
			setenv("VERIF_ASLR_TRIED", "1", 1);
			if (personality(pers | ADDR_NO_RANDOMIZE) != -1) execv("/proc/self/exe", argv);
		}
	}
	setpgid(0, 0);       /* own process group: the explorer's kill(0, SIGTERM) on a harness error must not reach the driver */
	a.tier = "quick"; a.budget_s = 100; a.workers = 16;
	for (int i = 1; i < argc; i++) {
		if (!strcmp(argv[i], "--tier") && i + 1 < argc) a.tier = argv[++i];
		else if (!strcmp(argv[i], "--budget") && i + 1 < argc) a.budget_s = atof(argv[++i]);
		else if (!strcmp(argv[i], "--workers") && i + 1 < argc) a.workers = atoi(argv[++i]);
		else if (!strcmp(argv[i], "--replay") && i + 1 < argc) a.replay = argv[++i];
		else if (!strcmp(argv[i], "-v")) a.verbose = 1;
		else if (!strcmp(argv[i], "--san-as") && i + 1 < argc) hc_san_as = argv[++i];
		else if (!strcmp(argv[i], "--part") && i + 1 < argc) { extern const char *xp_part; xp_part = argv[++i]; }
		else if (a.nextra < 8) a.extra[a.nextra++] = argv[i];
	}
	a.thorough = !strcmp(a.tier, "thorough");
	return a;
}

/* exploration mode: sanitizer text of thousands of children is noise; reports are
 * captured through the on_sanitizer hook.  Replay mode keeps stderr. */
static void hc_quiet(void)
{
	if (getenv("VERIF_KEEP_STDERR")) return;
	int fd = open("/dev/null", O_WRONLY);
	if (fd >= 0) { dup2(fd, 2); close(fd); }
}
#endif
