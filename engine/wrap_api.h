#ifndef WRAP_API_H
#define WRAP_API_H
#include <sys/socket.h>
struct w_server_cfg {
	const char *topdomain, *password, *my_ip, *ns_ip;
	int netmask, mtu, check_ip, bind_port, debug;
	unsigned srand_seed;
};
struct w_client_cfg {
	struct sockaddr_storage nameserv; int nameserv_len;
	const char *topdomain, *password, *qtype, *downenc;
	int selecttimeout, lazymode, hostname_maxlen;
	unsigned srand_seed;
};
#endif
