/* Virtual world for running the real iodine client/server code:
 * virtual clock, UDP sockets, tun devices, coroutine "processes".
 * See DESIGN.md section 1.2. */
#ifndef VW_H
#define VW_H

#include <stdint.h>
#include <stddef.h>
#include <sys/types.h>
#include <sys/socket.h>
#include <sys/select.h>
#include <netinet/in.h>

#define VW_MAXPROC   4
#define VW_MAXSOCK   8
#define VW_MAXTUN    4
#define VW_MAXDGRAM  512      /* arena slots for datagrams in flight / queued */
#define VW_MAXEVENTS 512
#define VW_STACK     (4u << 20)
#define VW_EPOCH     1000000000LL
#define VW_NEVER     INT64_MAX

enum { VW_P_UNUSED = 0, VW_P_READY, VW_P_SELECT, VW_P_SLEEP, VW_P_EXITED, VW_P_RETURNED };

typedef struct vw_dgram {
	int used;
	int seq;                     /* global send sequence number */
	struct sockaddr_storage src; socklen_t srclen;
	struct sockaddr_storage dst; socklen_t dstlen;
	int len;
	int from_proc;               /* sending process, -1 = harness */
	int64_t sent_at;
	unsigned char *data;         /* malloc'd, exactly len bytes (ASan-checked) */
} vw_dgram;

typedef struct vw_sock {
	int used;
	int proc;
	int fd;
	struct sockaddr_storage addr; socklen_t addrlen;   /* bound address */
	int q[256]; int qh, qn;      /* rx queue: indexes into dgram arena */
} vw_sock;

typedef struct vw_tunpkt { int len; unsigned char *data; int tag; } vw_tunpkt;

typedef struct vw_tun {
	int used;
	int proc;
	int fd;
	vw_tunpkt rx[64]; int rxh, rxn;    /* packets waiting to be read by iodine */
} vw_tun;

enum { VW_EV_DELIVER = 0, VW_EV_TUN = 1, VW_EV_CALLBACK = 2 };

typedef struct vw_event {
	int used;
	int64_t at;
	int kind;
	int seq;
	int a, b;                    /* DELIVER: a = dgram idx, b = sock idx; TUN: a = tun idx, b=tag; CALLBACK: a,b free */
	unsigned char *pkt; int pktlen;
} vw_event;

typedef struct vw_proc {
	int state;
	int exit_code;
	void (*entry)(void *);
	void *arg;
	char *stack;
	size_t stacksz;
	/* select / sleep bookkeeping */
	fd_set *rfds; int nfds;
	int64_t deadline;
	unsigned rand_state;
	int rand_forced[8]; int nrand_forced, rand_forced_pos;   /* harness-chosen rand() results, consumed first */
	long nselects;
	/* arena for calloc() redirected from the image (server users[]) */
	char *arena; size_t arena_sz, arena_used;
	/* recorded system() strings */
	char *syslog_[16]; int nsys;
	char *sys[16];
} vw_proc;

typedef struct vw_region { void *p; size_t n; } vw_region;
#define VW_SNAP_MAXREG 24
typedef struct vw_snap vw_snap;

/* hooks implemented by the harness */
typedef struct vw_hooks {
	/* called for every sendto(); the hook owns routing: it must call
	 * vw_deliver_at()/vw_drop() etc.  d is an arena index. */
	void (*on_send)(int d);
	/* called on every tun write by a process */
	void (*on_tun_write)(int proc, const unsigned char *data, int len);
	/* called just before a tun packet is handed to read() */
	void (*on_tun_read)(int proc, const unsigned char *data, int len, int tag);
	/* called for every VW_EV_CALLBACK event */
	void (*on_callback)(int a, int b);
	/* called when a datagram is handed to a process (recv*) */
	void (*on_recv)(int proc, int d);
	/* called on system() */
	void (*on_system)(int proc, const char *cmd);
	/* residue: fill receive buffer beyond the datagram (C12); may be NULL */
	void (*recv_residue)(int proc, unsigned char *buf, size_t buflen, int dlen);
	/* called on every ASan/UBSan report, with a stable signature string */
	void (*on_sanitizer)(const char *sig);
	/* called after a process has run and blocked again (monitors) */
	void (*after_run)(int proc);
	/* in-process snapshots: extra memory regions that belong to the state (e.g. the server's calloc'd users[],
	 * the harness model); note = 64 harness bytes stored with the snapshot and handed back after a restore */
	int (*snap_regions)(struct vw_region *out, int max, char *note);
	void (*snap_restored)(const char *note);
} vw_hooks;

typedef struct vw_world {
	int64_t now;                 /* microseconds since start */
	int cur;                     /* running process or -1 */
	vw_proc proc[VW_MAXPROC];
	vw_sock sock[VW_MAXSOCK];
	vw_tun tun[VW_MAXTUN];
	vw_dgram dg[VW_MAXDGRAM];
	vw_event ev[VW_MAXEVENTS];
	int dgseq, evseq;
	long nevents;                /* scheduler steps executed */
	long ndelivered;
	vw_hooks hooks;
	int verbose;
	int sanitizer_reports;       /* ASan/UBSan reports seen so far */
	char last_report[256];
	int direct;                  /* 1 while the harness calls image code directly as process W.cur */
	void *direct_jmp;            /* jmp_buf* for exit() in direct mode */
	int direct_exit_code;
	int watchdog_s;              /* wall-clock seconds allowed per vw_run call, 0=off */
	long family_mismatch_sends;  /* sendto() calls refused because socket and destination differ in address family */
} vw_world;

extern vw_world W;

void vw_init(void);
int  vw_spawn(int proc, void (*entry)(void *), void *arg);
int  vw_sock_open(int proc, int fd, const char *ip, int port);
int  vw_sock_open6(int proc, int fd, const char *ip6, int port);
int  vw_tun_open(int proc, int fd);
void vw_arena(int proc, size_t bytes);

/* network primitives for hooks/harness */
int  vw_dgram_new(const struct sockaddr_storage *src, socklen_t srclen,
		  const struct sockaddr_storage *dst, socklen_t dstlen,
		  const void *data, int len, int from_proc);
int  vw_dgram_clone(int d);
void vw_dgram_free(int d);
int  vw_sock_find(const struct sockaddr_storage *addr);
void vw_deliver_at(int d, int sockidx, int64_t at);   /* schedule DELIVER event */
void vw_deliver_now(int d, int sockidx);              /* put into rx queue immediately */
void vw_tun_offer_at(int tunidx, int64_t at, const void *pkt, int len, int tag);
void vw_callback_at(int64_t at, int a, int b);
void vw_mkaddr(struct sockaddr_storage *ss, socklen_t *len, const char *ip, int port);
void vw_mkaddr6(struct sockaddr_storage *ss, socklen_t *len, const char *ip6, int port);
int  vw_addr_eq(const struct sockaddr_storage *a, const struct sockaddr_storage *b);
const char *vw_addr_str(const struct sockaddr_storage *a);

/* scheduler */
int  vw_step(void);                    /* 1 = did something, 0 = nothing left to do */
int  vw_run_until(int64_t t);          /* run all events with time <= t; leaves now = t; returns steps */
int  vw_run_quiescent(int64_t maxadvance); /* run while some process is runnable now (no time advance) */
int64_t vw_next_time(void);            /* time of the next timed event / deadline, VW_NEVER if none */
int  vw_alive(int proc);

/* direct calls of image functions from the harness, on the harness stack, as process p */
void vw_direct_begin(int p, void *jmpbuf);
void vw_direct_end(void);

/* state hashing */
#define VW_HASH_STACKS 1
#define VW_HASH_COARSE_TIME 2
void vw_hash_world(uint64_t out[2], int flags);

/* in-process snapshot / restore of the whole world (all processes blocked, network at rest; not under ASan) */
vw_snap *vw_snapshot(void);
void vw_restore(const vw_snap *s);
void vw_snap_free(vw_snap *s);

/* image section registration (set by harness from __start/__stop symbols) */
void vw_register_section(const char *name, void *start, void *stop);

/* the vw_* replacements for libc calls of the images are declared in vw_libc.h */

void vw_fatal(const char *fmt, ...) __attribute__((noreturn, format(printf, 1, 2)));

#endif
