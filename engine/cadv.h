/* "Client adversary world": the real client (image ca) runs as process 1; the harness plays
 * the server / relay: it sees every datagram the client sends and decides what to answer. */
#ifndef CADV_H
#define CADV_H
#include <stdio.h>
#include <stdlib.h>
#include <string.h>
#include "vw.h"
#include "images.h"

#define CLI_TUN_FD 20
#define CLI_DNS_FD 21
#define CADV_MAXOUT 64

typedef struct cadv_out { int kind; struct sockaddr_storage dst; int len; unsigned char data[4200]; } cadv_out;  /* kind 0 dgram, 3 tun write, 4 system */
static cadv_out cadv_outs[CADV_MAXOUT];
static int cadv_nout;
static int cadv_sock = -1, cadv_tun = -1;
static struct w_client_cfg cadv_cfg;
static int cadv_raw_mode, cadv_autofrag = 1, cadv_fragsize = 3072;
static int cadv_hs_result = -99;
static const char *cadv_password = "secret", *cadv_topdomain = "t.example.com";
static int cadv_hostname_maxlen = 255;
static void (*cadv_client_entry)(void);      /* optional replacement for handshake+tunnel */
static struct sockaddr_storage cadv_ns; static socklen_t cadv_nslen;

static void cadv_clear(void) { cadv_nout = 0; }

static void cadv_on_send(int d)
{
	vw_dgram *g = &W.dg[d];
	if (cadv_nout < CADV_MAXOUT) {
		cadv_out *o = &cadv_outs[cadv_nout++];
		o->kind = 0; memcpy(&o->dst, &g->dst, sizeof o->dst);
		o->len = g->len > (int)sizeof o->data ? (int)sizeof o->data : g->len;
		memcpy(o->data, g->data, o->len);
	}
	vw_dgram_free(d);
}
static void cadv_on_tun_write(int proc, const unsigned char *data, int len)
{
	(void)proc;
	if (cadv_nout < CADV_MAXOUT) {
		cadv_out *o = &cadv_outs[cadv_nout++];
		o->kind = 3; memset(&o->dst, 0, sizeof o->dst);
		o->len = len > (int)sizeof o->data ? (int)sizeof o->data : len;
		memcpy(o->data, data, o->len);
	}
}
static void cadv_on_system(int proc, const char *cmd)
{
	(void)proc;
	if (cadv_nout < CADV_MAXOUT) {
		cadv_out *o = &cadv_outs[cadv_nout++];
		o->kind = 4; memset(&o->dst, 0, sizeof o->dst);
		o->len = (int)strlen(cmd) > 4000 ? 4000 : (int)strlen(cmd);
		memcpy(o->data, cmd, o->len);
	}
}

static void cadv_client_main(void *arg)
{
	(void)arg;
	ca_w_tun_set_ifname("dns0");
	ca_w_setup(&cadv_cfg);
	if (cadv_client_entry) { cadv_client_entry(); return; }
	cadv_hs_result = ca_w_handshake(CLI_DNS_FD, cadv_raw_mode, cadv_autofrag, cadv_fragsize);
	if (cadv_hs_result == 0) ca_w_tunnel(CLI_TUN_FD, CLI_DNS_FD);
}

static void cadv_boot(const char *qtype, const char *downenc, int lazy, int raw_mode)
{
	memset(&cadv_cfg, 0, sizeof cadv_cfg);
	vw_mkaddr(&cadv_ns, &cadv_nslen, "192.0.2.1", 53);
	memcpy(&cadv_cfg.nameserv, &cadv_ns, sizeof cadv_ns); cadv_cfg.nameserv_len = cadv_nslen;
	cadv_cfg.topdomain = cadv_topdomain; cadv_cfg.password = cadv_password;
	cadv_cfg.qtype = qtype; cadv_cfg.downenc = downenc;
	cadv_cfg.selecttimeout = 4; cadv_cfg.lazymode = lazy; cadv_cfg.hostname_maxlen = cadv_hostname_maxlen; cadv_cfg.srand_seed = 4242;
	cadv_raw_mode = raw_mode;
	W.hooks.on_send = cadv_on_send;
	W.hooks.on_tun_write = cadv_on_tun_write;
	W.hooks.on_system = cadv_on_system;
	cadv_sock = vw_sock_open(1, CLI_DNS_FD, "198.51.100.7", 40000);
	cadv_tun = vw_tun_open(1, CLI_TUN_FD);
	vw_spawn(1, cadv_client_main, NULL);
	vw_run_quiescent(0);
}

/* hand a datagram to the client (from the nameserver address unless src given) and let it run */
static int cadv_reply_from(const struct sockaddr_storage *src, socklen_t sl, const void *data, int len)
{
	if (!vw_alive(1)) return -1;
	int d = vw_dgram_new(src, sl, &W.sock[cadv_sock].addr, W.sock[cadv_sock].addrlen, data, len, -1);
	vw_deliver_now(d, cadv_sock);
	vw_run_quiescent(0);
	return vw_alive(1) ? 0 : -1;
}
static int cadv_reply(const void *data, int len) { return cadv_reply_from(&cadv_ns, cadv_nslen, data, len); }

#endif
