/* Fork-based exhaustive explorer: DESIGN.md 1.3.
 * - xp_choose(): choice point; forks one child per non-default alternative that is
 *   within the deviation budget, parent continues with alternative 0.
 * - xp_visit(): exact-state table in shared memory.
 * - xp_run_jobs(): top-level worker pool (one job = one configuration cell / subtree).
 */
#ifndef EXPLORE_H
#define EXPLORE_H
#include <stdint.h>
#include <stddef.h>

#define XP_MAXPATH   256
#define XP_MAXVIOL   64
#define XP_MAXSAMPLE 12
#define XP_OUTCOMES  (1u << 21)

typedef struct xp_viol {
	char sig[160];          /* signature: identifies the class of failing input/history */
	char detail[400];
	char replay[200];
	long count;
} xp_viol;

typedef struct xp_shared {
	long execs;             /* complete executions (leaves) */
	long transitions;       /* explorer transitions: choices taken / letters applied */
	long states;            /* distinct states inserted in the visited table */
	long revisits;          /* table hits (pruned) */
	long choicepoints;
	long forks;
	long steps;             /* scheduler steps over all executions */
	long evals;             /* oracle evaluations */
	long cap_hits;          /* executions that hit the event cap / horizon cap */
	long incomplete;        /* alternatives skipped because the deadline expired */
	long jobs_done, jobs_total;
	long maxdepth;
	long nviol;             /* distinct signatures */
	long viol_total;        /* all violating executions */
	long counters[32];      /* harness-specific counters */
	xp_viol viol[XP_MAXVIOL];
	int nsamples;
	char samples[XP_MAXSAMPLE][400];
	uint64_t outcomes[XP_OUTCOMES];   /* set of distinct outcome-class hashes */
	long noutcomes;
	double deadline;        /* wall clock (CLOCK_MONOTONIC seconds) */
	int lock;
	/* visited table */
	size_t tabsize;         /* entries, power of two */
} xp_shared;

typedef struct xp_entry { uint64_t k0, k1; int32_t depth; int32_t pad; } xp_entry;

extern xp_shared *XS;

/* per-process exploration context (copied by fork) */
typedef struct xp_ctx {
	int replay;                 /* 1 = follow path[], never fork */
	int budget;                 /* remaining deviation budget */
	int ncp;                    /* choice points passed in this execution */
	int npath;
	struct { int cp; int alt; } path[XP_MAXPATH];
	int job;
	int depth;                  /* E-B: letters applied */
	int is_child;
	const char *prop;
	const char *tier;
} xp_ctx;

extern xp_ctx XC;
extern const char *xp_part;

void   xp_init(const char *prop, const char *tier, size_t table_entries, double budget_s);
double xp_now(void);
int    xp_expired(void);

/* Returns the alternative to take. costs[i] = deviation cost of alternative i
 * (costs[0] must be 0). Forks children for i>=1 (sequentially, waiting for each). */
int    xp_choose(int nalts, const int *costs);

/* E-B helper: fork a child to explore one transition; returns 0 in the child,
 * child's pid (>0) in the parent after the child has finished. */
int    xp_fork_wait(void);

/* visited table: returns 1 if (key) was not present at depth <= given (i.e. must be
 * explored), 0 if already covered. */
int    xp_visit(const uint64_t key[2], int depth);

void   xp_outcome(uint64_t h);           /* register an outcome class */
void   xp_sample(const char *fmt, ...) __attribute__((format(printf, 1, 2)));
void   xp_count(int idx, long n);
extern volatile long xp_progress;      /* process-local progress counter watched by the guard */
void   xp_guard(const char *san_as, volatile int *curproc, int catch_crashes);   /* CPU-time watchdog (+ crash handler) for executions of the code under test */

/* record a violation (deduplicated by signature); writes a replay file */
void   xp_violation(const char *sig, const char *fmt, ...) __attribute__((format(printf, 2, 3)));
/* harness callback used to describe the configuration in replay files */
extern void (*xp_describe_job)(int job, char *buf, size_t buflen);

void   xp_leaf(void);                    /* count a finished execution; exits if child */
void   xp_child_exit(void) __attribute__((noreturn));

/* run njobs jobs with up to nworkers concurrent worker processes */
void   xp_run_jobs(int njobs, void (*fn)(int job), int nworkers);

/* parse "--replay file": fills XC.path etc. returns job index or -1 */
int    xp_load_replay(const char *file);

/* print STATS json line */
void   xp_print_stats(const char *extra_json);

#endif
