/* Declarations of image entry points, by prefix. */
#ifndef IMAGES_H
#define IMAGES_H
#include <stdint.h>
#include <sys/types.h>
#include <sys/socket.h>
#include <netinet/in.h>
#include <arpa/nameser.h>
#include "common.h"
#include "encoding.h"
#include "dns.h"
#include "user.h"
#include "fw_query.h"
#include "wrap_api.h"

#define IMG_SECTIONS(P) \
	extern char __start_##P##data[], __stop_##P##data[], __start_##P##bss[], __stop_##P##bss[];

#define IMG_REGISTER(P) do { \
	vw_register_section(#P "data", __start_##P##data, __stop_##P##data); \
	vw_register_section(#P "bss", __start_##P##bss, __stop_##P##bss); } while (0)

#define IMG_COMMON(P) \
	IMG_SECTIONS(P) \
	extern const struct encoder P##_base32_ops, P##_base64_ops, P##_base64u_ops, P##_base128_ops; \
	int P##_b32_5to8(int); int P##_b32_8to5(int); \
	int P##_build_hostname(char *, size_t, const char *, const size_t, const char *, const struct encoder *, int); \
	int P##_unpack_data(char *, size_t, char *, size_t, const struct encoder *); \
	int P##_inline_dotify(char *, size_t); int P##_inline_undotify(char *, size_t); \
	int P##_dns_encode(char *, size_t, struct query *, qr_t, const char *, size_t); \
	int P##_dns_decode(char *, size_t, struct query *, qr_t, char *, size_t); \
	int P##_dns_encode_ns_response(char *, size_t, struct query *, char *); \
	int P##_dns_encode_a_response(char *, size_t, struct query *); \
	unsigned short P##_dns_get_id(char *, size_t); \
	extern int P##_dnsc_use_edns0; \
	int P##_check_topdomain(char *, int, char **); \
	int P##_query_datalen(const char *, const char *); \
	int P##_recent_seqno(int, int); \
	void P##_login_calculate(char *, int, const char *, int); \
	int P##_tun_setip(const char *, const char *, int); int P##_tun_setmtu(const unsigned); \
	void P##_w_tun_set_ifname(const char *);

#define IMG_SERVER(P) \
	IMG_COMMON(P) \
	void P##_w_init(const struct w_server_cfg *); \
	int P##_w_run(int, int, int, int); \
	struct tun_user *P##_w_users(void); int P##_w_created_users(void); size_t P##_w_user_size(void); \
	int P##_w_check_ip(void); const char *P##_w_password(void); \
	void P##_w_write_dns(int, struct query *, const char *, int, char); \
	int P##_w_real_main(int, char **); \
	int P##_init_users(in_addr_t, int); int P##_find_user_by_ip(uint32_t); \
	int P##_find_available_user(void); int P##_all_users_waiting_to_send(void); \
	extern struct tun_user *P##_users; extern unsigned P##_usercount; \
	void P##_fw_query_init(void); void P##_fw_query_put(struct fw_query *); \
	void P##_fw_query_get(unsigned short, struct fw_query **);

#define IMG_CLIENT(P) \
	IMG_COMMON(P) \
	void P##_w_setup(const struct w_client_cfg *); \
	int P##_w_handshake(int, int, int, int); int P##_w_tunnel(int, int); \
	int P##_w_is_sending(void); int P##_w_conn(void); int P##_w_lazymode(void); int P##_w_selecttimeout(void); \
	int P##_w_qtype(void); char P##_w_downenc(void); const char *P##_w_dataenc_name(void); \
	int P##_w_userid(void); unsigned P##_w_chunkid(void); \
	struct packet *P##_w_outpkt(void); struct packet *P##_w_inpkt(void); int P##_w_running(void); \
	void P##_w_set_dataenc(int); void P##_w_set_userid(int); void P##_w_set_conn(int); \
	void P##_w_set_outpkt(const char *, int, int, int, int); \
	void P##_w_send_chunk(int); void P##_w_resend_chunk(int); void P##_w_send_ping(int); void P##_w_send_version(int); \
	void P##_w_send_login(int, char *, int); void P##_w_send_fragsize_probe(int, int); \
	void P##_w_send_set_downstream_fragsize(int, int); \
	int P##_w_read_dns_withq(int, int, char *, int, struct query *); \
	int P##_w_handshake_login(int, int); int P##_w_handshake_version(int, int *); \
	void P##_w_set_qtype_num(int); void P##_w_set_edns0(int); \
	extern int P##_outchunkresent;

#endif
