/* E-B: depth-bounded explicit-state DFS over a finite letter alphabet against real code running
 * in the virtual world.  One transition = fork a child, apply one letter in the child (real
 * code runs), evaluate the oracle, hash the exact state, continue below if the state is new at
 * this depth.  The visited table (explore.c) is shared by all workers.  Header-only.
 * DESIGN.md 1.3. */
#ifndef EB_H
#define EB_H
#include <stdio.h>
#include <string.h>
#include <stdlib.h>
#include <unistd.h>
#include "explore.h"
#include "vw.h"

typedef struct eb_ops {
	int nletters;
	int maxdepth;
	/* applies letter l to the current world and runs the oracle (xp_violation on failure).
	 * returns 0 = applied, 1 = letter not enabled in this state (no transition) */
	int (*apply)(int l);
	void (*key)(uint64_t k[2]);
	const char *(*name)(int l);
	void (*leaf)(void);          /* optional: called once per expanded state (for outcome classes) */
} eb_ops;

static long eb_disabled;
static void eb_dumpkey(const eb_ops *o, const uint64_t k[2])
{
	static int on = -1;
	if (on < 0) on = getenv("VERIF_DUMPKEYS") != NULL;
	if (!on) return;
	char b[2000]; int n = snprintf(b, sizeof b, "KEY %016llx job %d:", (unsigned long long)k[0], XC.job);
	for (int i = 0; i < XC.npath && n < 1900; i++) n += snprintf(b + n, sizeof b - n, " %s", o->name(XC.path[i].alt));
	b[n++] = '\n';
	write(1, b, n);
}

static void eb_dfs(const eb_ops *o, int depth)
{
	if (depth > XS->maxdepth) XS->maxdepth = depth;
	if (depth >= o->maxdepth) return;
	for (int l = 0; l < o->nletters; l++) {
		if (xp_expired()) { __atomic_fetch_add(&XS->incomplete, 1, __ATOMIC_RELAXED); break; }
		if (xp_fork_wait() != 0) continue;
		/* child */
		if (XC.npath < XP_MAXPATH) { XC.path[XC.npath].cp = depth; XC.path[XC.npath].alt = l; XC.npath++; }
		XC.depth = depth + 1;
		int r = o->apply(l);
		if (r == 0) {
			uint64_t k[2];
			__atomic_fetch_add(&XS->transitions, 1, __ATOMIC_RELAXED);
			o->key(k);
			eb_dumpkey(o, k);
			if (xp_visit(k, depth + 1)) {
				if (o->leaf) o->leaf();
				eb_dfs(o, depth + 1);
			}
		}
		__atomic_fetch_add(&XS->execs, 1, __ATOMIC_RELAXED);
		xp_child_exit();
	}
}

/* same search without fork: the state is saved and restored in-process (vw_snapshot).  Needs a
 * non-ASan build and a harness whose state is fully covered by the world, the image sections and
 * the regions it registers through W.hooks.snap_regions. */
static void eb_dfs_snap(const eb_ops *o, int depth)
{
	if (depth > XS->maxdepth) XS->maxdepth = depth;
	if (depth >= o->maxdepth) return;
	vw_snap *s = vw_snapshot();
	int npath = XC.npath;
	for (int l = 0; l < o->nletters; l++) {
		if (xp_expired()) { __atomic_fetch_add(&XS->incomplete, 1, __ATOMIC_RELAXED); break; }
		if (npath < XP_MAXPATH) { XC.path[npath].cp = depth; XC.path[npath].alt = l; XC.npath = npath + 1; }
		XC.depth = depth + 1;
		int r = o->apply(l);
		if (r == 0) {
			uint64_t k[2];
			__atomic_fetch_add(&XS->transitions, 1, __ATOMIC_RELAXED);
			o->key(k);
			eb_dumpkey(o, k);
			if (xp_visit(k, depth + 1)) {
				if (o->leaf) o->leaf();
				eb_dfs_snap(o, depth + 1);
			}
			__atomic_fetch_add(&XS->execs, 1, __ATOMIC_RELAXED);
			vw_restore(s);
		} else eb_disabled++;
		XC.npath = npath;
	}
	vw_snap_free(s);
}

/* replay: apply the recorded letters in order in this process, no forking */
static void eb_replay(const eb_ops *o, int verbose)
{
	for (int i = 0; i < XC.npath; i++) {
		int l = XC.path[i].alt;
		if (l < 0 || l >= o->nletters) { dprintf(1, "HARNESS-ERROR replay letter %d out of range\n", l); _exit(2); }
		if (verbose) printf("step %d: letter %d = %s\n", i + 1, l, o->name ? o->name(l) : "?");
		XC.depth = i + 1;
		int r = o->apply(l);
		if (r != 0) { dprintf(1, "HARNESS-ERROR replay letter %d (%s) not enabled at step %d\n", l, o->name ? o->name(l) : "?", i + 1); _exit(2); }
	}
}

#endif
