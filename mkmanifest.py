#!/usr/bin/env python3
"""Regenerates MANIFEST.json from props/registry.py (single source of truth)."""
import json, os, sys
V = os.path.dirname(os.path.abspath(__file__))
sys.path.insert(0, os.path.join(V, "props"))
from registry import PROPS, NOT_CLAIMED, ENGINES  # noqa

ids = [json.loads(l)["id"] for l in open(os.path.join(V, "properties.jsonl"))]
checks = []
for pid in ids:
    if pid not in PROPS:
        continue
    P = PROPS[pid]
    c = {
        "property_id": pid,
        "quick_cmd": "./check %s --tier quick" % pid,
        "evidence_file": "/verif/evidence/%s.json" % pid,
        "replay_cmd_template": "./check %s --replay {path}" % pid,
        "engine": P.get("engine", "E-C"),
        "level_claimed": {"category": P.get("level", "model_checking"), "text": P["level_text"], "design_ref": P.get("design_ref", "DESIGN.md 2, " + pid)},
        "level_note": P["level_note"],
        "technique": P["technique"],
    }
    if "thorough" in P["tiers"]:
        c["thorough_cmd"] = "./check %s --tier thorough" % pid
    checks.append(c)
na = [{"property_id": p, "reason": NOT_CLAIMED.get(p, "check not built yet in this round; see DESIGN.md section 2 for the plan")}
      for p in ids if p not in PROPS]
m = {
    "version": 1,
    "setup_cmd": "./setup.sh",
    "hooks": {"guard": "IODINE_VERIF", "enable": "no source hooks are needed: the real sources are compiled unchanged into symbol-prefixed images whose environment calls are linked to the virtual world (engine/build.py)",
              "baseline_off_cmd": "make -C /repo test", "source_commits": [], "add_only": True},
    "engines": ENGINES,
    "checks": checks,
    "notes": "All checks are bounded exhaustive exploration of the real C code (no abstract model); see DESIGN.md.",
    "not_applicable": na,
}
json.dump(m, open(os.path.join(V, "MANIFEST.json"), "w"), indent=1)
print("MANIFEST.json: %d checks, %d not claimed" % (len(checks), len(na)))
