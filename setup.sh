#!/bin/sh
# MANIFEST.setup_cmd: everything is built on demand by ./check from /repo's working tree
# (cached by content hash under /verif/build).  Here we only verify the tool chain and warm
# the cache for the unchanged tree so that the first check does not pay for the build.
set -e
cd "$(dirname "$0")"
command -v gcc >/dev/null && command -v objcopy >/dev/null && command -v ld >/dev/null && command -v python3 >/dev/null
mkdir -p evidence build
python3 - <<'PY'
import sys, os
sys.path.insert(0, "engine"); sys.path.insert(0, "props")
import build
from registry import PROPS
for pid, P in sorted(PROPS.items()):
    for part in (P.get("parts") or [P]):
        build.build(os.path.join("props", part["harness"]), part.get("flavor", "asan"), tuple(part.get("images", (("s", "server"), ("ca", "client")))))
print("setup ok: %d harnesses built" % len(PROPS))
PY
